"""Orchestrates the checks of one property: runs its harness jobs (E1 CrossHair, E2 astz3,
E3 BMC) in parallel processes, replays counterexamples natively, applies the known
findings file, writes /verif/evidence/<id>.json and sets the exit code.

exit 0: no unlisted violation on everything explored
exit 1: reproduced violation (prints `VIOLATION property=<id> replay=<path>`)
exit 2: harness error (vacuous harness, unsupported encoding, model disagreement, env)
"""
import concurrent.futures as cf
import hashlib
import importlib
import inspect
import json
import os
import subprocess
import sys
import time

VERIF = os.path.dirname(os.path.dirname(os.path.abspath(__file__)))
PY = os.path.join(VERIF, '.venv', 'bin', 'python')
NCPU = int(os.environ.get('VERIF_JOBS', '0')) or max(2, (os.cpu_count() or 4) - 1)


def _env(extra=None):
    env = dict(os.environ)
    env['PYTHONPATH'] = os.pathsep.join([VERIF, os.path.join(VERIF, 'harness'), '/repo'])
    env['PYTHONHASHSEED'] = '0'
    env['PYWBEM_VERIF'] = '1'
    env.pop('VERIF_REPLAY', None)
    if extra:
        env.update(extra)
    return env


def run_job(job):
    """job: dict(engine, module, function, timeout, per_path, part, nparts, kind).
    Returns the job dict updated with 'result'."""
    t0 = time.time()
    extra = {'VERIF_PART': '%d/%d' % (job.get('part', 0), job.get('nparts', 1)),
             'VERIF_TIER': job.get('tier', 'quick')}
    if job['engine'] == 'crosshair':
        cmd = [PY, '-m', 'verifpw.ch_driver', job['module'], job['function'],
               '--timeout', str(job['timeout'])]
        if job.get('per_path'):
            cmd += ['--per-path', str(job['per_path'])]
        hard = job['timeout'] * 1.5 + 60
    else:  # 'script': a module with main() printing @@RESULT@@ json (E2/E3 drivers)
        cmd = [PY, '-m', job['module'], job['function'], '--timeout', str(job['timeout'])]
        hard = job['timeout'] * 1.5 + 60
    try:
        p = subprocess.run(cmd, env=_env(extra), cwd=VERIF, capture_output=True, text=True,
                           timeout=hard)
        res = None
        for line in p.stdout.splitlines():
            if line.startswith('@@RESULT@@'):
                res = json.loads(line[len('@@RESULT@@'):])
        if res is None:
            res = {'status': 'ERROR', 'messages': [{'state': 'no_result',
                   'message': (p.stdout[-1500:] + '\n' + p.stderr[-3000:])}]}
    except subprocess.TimeoutExpired:
        res = {'status': 'TIMEOUT', 'messages': [{'state': 'hard_timeout', 'message': 'killed'}]}
    res['job_wall_s'] = round(time.time() - t0, 2)
    job = dict(job)
    job['result'] = res
    return job


def replay(replay_path):
    """Re-execute a counterexample natively in a fresh process. Returns dict(reproduced, detail)."""
    p = subprocess.run([PY, '-m', 'verifpw.replay', replay_path], env=_env({'VERIF_REPLAY': '1'}),
                       cwd=VERIF, capture_output=True, text=True, timeout=600)
    for line in p.stdout.splitlines():
        if line.startswith('@@REPLAY@@'):
            return json.loads(line[len('@@REPLAY@@'):])
    return {'reproduced': None, 'detail': 'replay crashed: ' + (p.stdout + p.stderr)[-2000:]}


def source_hashes(func_names):
    """[('pywbem._x.f', sha1-of-source)] for the functions a harness declares as executed."""
    out = []
    sys.path.insert(0, '/repo')
    for qn in func_names:
        try:
            modname, _, attr = qn.partition(':')
            obj = importlib.import_module(modname)
            for a in attr.split('.'):
                obj = getattr(obj, a)
            src = inspect.getsource(obj)
            out.append({'function': qn, 'sha1': hashlib.sha1(src.encode()).hexdigest()[:12],
                        'lines': src.count('\n')})
        except Exception as e:  # anchor missing: reported, decides SKIPPED
            out.append({'function': qn, 'missing': repr(e)})
    return out


def check_property(spec, tier, seed):
    """spec: module object verifpw.props.cNN with PROPERTY, HARNESSES (list of dicts)."""
    from . import kf
    t0 = time.time()
    pid = spec.PROPERTY
    jobs = []
    for h in spec.HARNESSES:
        if tier == 'quick' and h.get('thorough_only'):
            continue
        tcfg = h.get(tier) or h.get('quick')
        nparts = tcfg.get('parts', 1)
        for part in range(nparts):
            jobs.append(dict(engine=h['engine'], module=h['module'], function=h['function'],
                             timeout=tcfg['timeout'], per_path=tcfg.get('per_path'),
                             part=part, nparts=nparts, kind='main', hname=h['name'], tier=tier))
        if h.get('reach'):
            # reach_parts: one vacuity twin per partition (each partition must reach its success path)
            rparts = tcfg.get('reach_parts', 1)
            for rf in (h['reach'] if isinstance(h['reach'], list) else [h['reach']]):
                for rp in range(rparts):
                    jobs.append(dict(engine=h['engine'], module=h['module'], function=rf,
                                     timeout=tcfg.get('reach_timeout', 60), per_path=tcfg.get('per_path'),
                                     part=rp, nparts=rparts, kind='reach', hname=h['name'], tier=tier))
    # reach twins first (cheap), then long jobs first
    jobs.sort(key=lambda j: (j['kind'] != 'reach', -j['timeout']))
    if seed:
        import random
        rnd = random.Random(seed)
        main = [j for j in jobs if j['kind'] == 'main']
        rnd.shuffle(main)
        jobs = [j for j in jobs if j['kind'] == 'reach'] + main
    done = []
    with cf.ThreadPoolExecutor(max_workers=NCPU) as ex:
        for j in ex.map(run_job, jobs):
            done.append(j)

    harness_errors = []
    violations = []
    per_h = {}
    os.makedirs(os.path.join(VERIF, 'replays', pid), exist_ok=True)
    for j in done:
        r = j['result']
        hrec = per_h.setdefault(j['hname'], {'parts': [], 'reach': [], 'cex': []})
        if j['kind'] == 'reach':
            ok = r['status'] == 'REFUTED'
            hrec['reach'].append({'function': j['function'], 'reachable': ok,
                                  'status': r['status'], 'wall_s': r.get('wall_s'),
                                  'witness': (r.get('cex') or {}).get('args')})
            if not ok:
                harness_errors.append('%s: reachability twin %s not satisfied (%s): %s' % (
                    j['hname'], j['function'], r['status'], json.dumps(r.get('messages'))[:800]))
            continue
        hrec['parts'].append({'part': '%d/%d' % (j['part'], j['nparts']), 'status': r['status'],
                              'paths': r.get('paths', 0), 'confirmed_paths': r.get('confirmed_paths', 0),
                              'queries': r.get('queries'), 'wall_s': r.get('wall_s'),
                              'extra': r.get('extra')})
        if r['status'] in ('ERROR', 'PRE_UNSAT', 'TIMEOUT'):
            harness_errors.append('%s[%s] %s: %s' % (j['hname'], j['function'], r['status'],
                                                     json.dumps(r.get('messages'))[:1500]))
        elif r['status'] == 'REFUTED':
            cexs = r.get('cexs') or [r.get('cex')]
            for cex in cexs:
                body = {'property': pid, 'harness': j['hname'], 'module': j['module'],
                        'function': j['function'], 'engine': j['engine'],
                        'args': cex.get('args'), 'symptom': cex.get('message'),
                        'part': '%d/%d' % (j['part'], j['nparts'])}
                hsh = hashlib.sha1(json.dumps(body, sort_keys=True, default=repr).encode()).hexdigest()[:10]
                path = os.path.join(VERIF, 'replays', pid, '%s-%s.json' % (j['hname'], hsh))
                with open(path, 'w') as f:
                    json.dump(body, f, indent=1, default=repr)
                rp = replay(path)
                rec = {'replay': path, 'args': cex.get('args'), 'symptom': cex.get('message'),
                       'reproduced': rp.get('reproduced'), 'replay_detail': rp.get('detail')}
                hrec['cex'].append(rec)
                if rp.get('reproduced') is True:
                    violations.append(rec)
                else:
                    harness_errors.append('%s: counterexample did not reproduce natively: %s / %s' % (
                        j['hname'], json.dumps(cex, default=repr)[:600], str(rp.get('detail'))[:600]))

    # known findings: replay each open witness; print KNOWN-FINDING if it still fails
    kf_lines = []
    kf_recs = []
    for e in kf.open_entries(pid):
        body = {'property': pid, 'harness': e['harness'], 'module': e['harness'].split(':')[0],
                'function': e['harness'].split(':')[1], 'engine': 'known-finding',
                'args': e['witness'], 'symptom': e.get('symptom'), 'ignore_kf': True}
        path = os.path.join(VERIF, 'replays', pid, 'known-%s.json' % e['id'])
        with open(path, 'w') as f:
            json.dump(body, f, indent=1)
        rp = replay(path)
        kf_recs.append({'id': e['id'], 'still_fails': rp.get('reproduced'), 'detail': rp.get('detail')})
        if rp.get('reproduced') is True:
            kf_lines.append('KNOWN-FINDING: property=%s %s [%s] %s' % (pid, e['id'], e['when'], e['description']))
        elif rp.get('reproduced') is None:
            harness_errors.append('known finding %s: witness replay crashed: %s' % (e['id'], rp.get('detail')))

    # evidence
    total_paths = sum(p['paths'] or 0 for h in per_h.values() for p in h['parts'])
    confirmed = sum(p['confirmed_paths'] or 0 for h in per_h.values() for p in h['parts'])
    queries = sum(p['queries'] or 0 for h in per_h.values() for p in h['parts'])
    hsum = []
    samples = []
    for h in spec.HARNESSES:
        rec = per_h.get(h['name'])
        if rec is None:
            continue
        sts = [p['status'] for p in rec['parts']]
        if sts and all(s == 'CONFIRMED' for s in sts):
            verdict = 'PROVED-IN-BOUNDS'
        elif any(s == 'REFUTED' for s in sts):
            verdict = 'COUNTEREXAMPLE'
        elif any(s in ('ERROR', 'PRE_UNSAT', 'TIMEOUT') for s in sts):
            verdict = 'HARNESS-ERROR'
        else:
            verdict = 'NO-CEX-IN-BUDGET'
        hsum.append({'harness': h['name'], 'engine': h['engine'], 'entry': '%s:%s' % (h['module'], h['function']),
                     'verdict': verdict, 'bounds': (h.get(tier) or h['quick']).get('bounds', h.get('bounds')),
                     'stubs': h.get('stubs', []),
                     'functions_executed': source_hashes(h.get('functions', [])),
                     'parts': rec['parts'], 'reachability': rec['reach'], 'counterexamples': rec['cex']})
        for r in rec['reach']:
            if r.get('witness'):
                samples.append({'harness': h['name'], 'reachability_witness': r['witness']})
    wall = time.time() - t0
    ev = {
        'property_id': pid, 'tier': tier, 'seed': seed, 'level': 'other',
        'coverage': {
            'explanation': 'Bounded symbolic execution of the real /repo code with an SMT solver (z3). '
                           'Per harness the verdict is PROVED-IN-BOUNDS (every feasible path explored, '
                           'assertion holds on each, within the stated bounds), NO-CEX-IN-BUDGET (bug hunting '
                           'only: path tree not exhausted in the time budget) or COUNTEREXAMPLE (replayed natively).',
            'evaluations': int(total_paths + queries),
            'distinct_nontrivial': int(confirmed),
            'rule': 'evaluations = symbolic paths explored + solver queries issued by own encodings; '
                    'distinct_nontrivial = paths on which the precondition held and the final assertion was '
                    'evaluated and confirmed (each path is a distinct set of branch decisions = a distinct input class)',
            'samples': samples[:12] or [{'note': 'no reachability witness recorded'}],
            'exhaustive': bool(hsum) and all(h['verdict'] == 'PROVED-IN-BOUNDS' for h in hsum),
            'harnesses': hsum,
            'known_findings': kf_recs,
            'solver_time_s': round(sum((p['wall_s'] or 0) for h in per_h.values() for p in h['parts']), 1),
            'harness_errors': harness_errors,
        },
        'assumptions': sorted({s for h in spec.HARNESSES for s in h.get('stubs', [])}
                              | set(getattr(spec, 'ASSUMPTIONS', []))),
        'wall_s': round(wall, 1),
        'violations': len(violations),
    }
    os.makedirs(os.path.join(VERIF, 'evidence'), exist_ok=True)
    with open(os.path.join(VERIF, 'evidence', pid + '.json'), 'w') as f:
        json.dump(ev, f, indent=1, default=repr)

    for h in hsum:
        print('%s %-28s %-18s paths=%d confirmed=%d parts=%d' % (
            pid, h['harness'], h['verdict'], sum(p['paths'] or 0 for p in h['parts']),
            sum(p['confirmed_paths'] or 0 for p in h['parts']), len(h['parts'])))
    for line in kf_lines:
        print(line)
    if violations:
        for v in violations:
            print('VIOLATION property=%s replay=%s' % (pid, v['replay']))
            print('  args=%s symptom=%s' % (json.dumps(v['args'], default=repr)[:400], str(v['symptom'])[:300]))
        return 1
    if harness_errors:
        for e in harness_errors:
            print('HARNESS-ERROR %s' % e)
        return 2
    print('%s OK tier=%s wall=%.0fs' % (pid, tier, wall))
    return 0


def main(argv=None):
    import argparse
    ap = argparse.ArgumentParser()
    ap.add_argument('property', nargs='?')
    ap.add_argument('--tier', default=os.environ.get('VERIF_TIER', 'quick'))
    ap.add_argument('--replay')
    ap.add_argument('--only', help='comma list of harness names')
    a = ap.parse_args(argv)
    subprocess.run([os.path.join(VERIF, 'bin', 'ensure_env.sh')], check=True)
    if a.replay:
        rp = replay(a.replay)
        print(json.dumps(rp, indent=1))
        with open(a.replay) as f:
            body = json.load(f)
        if rp.get('reproduced'):
            print('VIOLATION property=%s replay=%s' % (body['property'], a.replay))
            return 1
        return 0 if rp.get('reproduced') is False else 2
    seed = int(os.environ.get('VERIF_SEED', '0') or 0)
    sys.path.insert(0, VERIF)
    spec = importlib.import_module('verifpw.props.' + a.property.lower())
    if a.only:
        names = set(a.only.split(','))
        spec.HARNESSES = [h for h in spec.HARNESSES if h['name'] in names]
    return check_property(spec, a.tier, seed)


if __name__ == '__main__':
    sys.exit(main())
