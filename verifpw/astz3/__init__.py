"""E2: symbolic interpreter over the AST of the current /repo source on z3 (DESIGN.md section 2).
core = statements/expressions/ints/bools/assoc-list dicts; strings = code-point-list strings;
contracts = regex matcher, int()/float() contracts, super(), typed int construction."""
from .core import *          # noqa
from . import strings, contracts, dtmodel   # noqa  (patch the engine)
from .strings import SymStr, lift, lower
from .contracts import SymReal
