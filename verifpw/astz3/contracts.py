"""E2 prototype part 3: regex matcher on code-point lists, int()/float() contracts, super()."""
import ast, re, z3, builtins, types
try:
    import re._parser as sre_parse, re._constants as sre_c
except ImportError:
    import sre_parse, sre_constants as sre_c
from .core import *
from . import core as symi, strings as symstr
from .strings import SymStr, lift, lower, ceq

class SymReal:
    """float contract value: kind in {'finite','inf','-inf','nan'}; finite carries a z3 Real."""
    __slots__ = ('kind', 't')
    def __init__(self, kind, t=None): self.kind = kind; self.t = t
    def __repr__(self): return 'SymReal(%s)' % self.kind
_prev_is_sym = symi.is_sym
symi.is_sym = lambda v: _prev_is_sym(v) or isinstance(v, SymReal)
symstr.is_sym2 = symi.is_sym

WS = [9, 10, 11, 12, 13, 28, 29, 30, 31, 32, 0x85, 0xA0]   # str.isspace / int() / float() white space (subset; others excluded by bounds)
from . import regex as _regex


def pattern_match(eng, pat, s, full=False):
    m = _regex.run(eng, pat, s, 'fullmatch' if full else 'match')
    return None if m is None else m.end_


# ---------- int()/float() contracts on code-point lists
def strip_ws(eng, s):
    cs = list(s.cs)
    def isws(c):
        if isinstance(c, int): return chr(c).isspace()
        return eng.branch(z3.Or(*[c == w for w in WS]))
    while cs and isws(cs[0]): cs.pop(0)
    while cs and isws(cs[-1]): cs.pop()
    return SymStr(cs)

def digit_val(eng, c, base):
    """return int/z3 value if c is a digit in base (ASCII), else None (forking)."""
    if isinstance(c, int):
        try: return int(chr(c), base)
        except ValueError: return None
    if eng.branch(z3.And(c >= 48, c <= 48 + min(base, 10) - 1)): return c - 48
    if base > 10:
        if eng.branch(z3.And(c >= 97, c <= 97 + base - 11)): return c - 87
        if eng.branch(z3.And(c >= 65, c <= 65 + base - 11)): return c - 55
    return None

def model_int_of_str(eng, s, base=10):
    s = strip_ws(eng, lift(s)); cs = list(s.cs); sign = 1
    def is_(c, ch):
        r = ceq(c, ord(ch)); return r if isinstance(r, bool) else eng.branch(r)
    if cs and is_(cs[0], '-'): sign = -1; cs.pop(0)
    elif cs and is_(cs[0], '+'): cs.pop(0)
    if base == 16 and len(cs) >= 2 and is_(cs[0], '0') and (is_(cs[1], 'x') or is_(cs[1], 'X')): cs = cs[2:]
    if not cs: raise PyRaise(ValueError('invalid literal for int()'))
    val = 0; prev_us = True
    for c in cs:
        if is_(c, '_'):
            if prev_us: raise PyRaise(ValueError('invalid literal for int()'))
            prev_us = True; continue
        d = digit_val(eng, c, base)
        if d is None: raise PyRaise(ValueError('invalid literal for int()'))
        val = val * base + d; prev_us = False
    if prev_us: raise PyRaise(ValueError('invalid literal for int()'))
    val = val * sign
    return val if isinstance(val, int) else SymInt(z3.simplify(val))

FLOAT_RE = re.compile(r'[+-]?(?:(?:[0-9](?:_?[0-9])*)?\.?(?:[0-9](?:_?[0-9])*)?(?:[eE][+-]?[0-9](?:_?[0-9])*)?)$')
def ci_word(eng, cs, word):
    if len(cs) != len(word): return False
    for c, w in zip(cs, word):
        alts = [ord(w.lower()), ord(w.upper())]
        zc = [z3.BoolVal(ceq(c, a)) if isinstance(ceq(c, a), bool) else ceq(c, a) for a in alts]
        if not eng.branch(z3.Or(*zc)): return False
    return True
_fresh = [0]
def model_float_of_str(eng, s):
    s = strip_ws(eng, lift(s)); cs = list(s.cs); neg = False
    def is_(c, ch):
        r = ceq(c, ord(ch)); return r if isinstance(r, bool) else eng.branch(r)
    body = cs
    if body and is_(body[0], '-'): neg = True; body = body[1:]
    elif body and is_(body[0], '+'): body = body[1:]
    for w in ('inf', 'infinity'):
        if ci_word(eng, body, w): return SymReal('-inf' if neg else 'inf')
    if ci_word(eng, body, 'nan'): return SymReal('nan')
    # finite decimal literal: needs at least one digit in the mantissa
    end = pattern_match(eng, FLOAT_RE, SymStr(cs), full=True)
    has_digit = any((48 <= c <= 57) if isinstance(c, int) else False for c in cs) or any(not isinstance(c, int) for c in cs)
    if end is None: raise PyRaise(ValueError('could not convert string to float'))
    # mantissa must contain a digit: check first non-sign char class
    md = False
    for c in body:
        if isinstance(c, int): d = 48 <= c <= 57
        else: d = eng.branch(z3.And(c >= 48, c <= 57))
        if d: md = True; break
        if is_(c, 'e') or is_(c, 'E'): break
    if not md: raise PyRaise(ValueError('could not convert string to float'))
    _fresh[0] += 1
    eng.approx = True        # the numeric value of a finite literal is not modelled (free real)
    return SymReal('finite', z3.Real('f%d' % _fresh[0]))

def model_int_of_real(eng, r):
    if r.kind in ('inf', '-inf'): raise PyRaise(OverflowError('cannot convert float infinity to integer'))
    if r.kind == 'nan': raise PyRaise(ValueError('cannot convert float NaN to integer'))
    t = r.t
    return SymInt(z3.If(t >= 0, z3.ToInt(t), -z3.ToInt(-t)))

# ---------- hook the contracts into the engine
_prev_call_model = Engine.call_model
def call_model3(self, f, args, kwargs):
    if f is int or (isinstance(f, type) and f is int):
        a = args[0]
        base = args[1] if len(args) > 1 else kwargs.get('base', 10)
        if isinstance(a, SymStr): return model_int_of_str(self, a, base)
        if isinstance(a, SymReal): return model_int_of_real(self, a)
        if isinstance(a, SymInt): return a
    if f is float and isinstance(args[0], SymStr): return model_float_of_str(self, args[0])
    if f is isinstance and isinstance(args[0], SymReal):
        t = args[1]; return issubclass(float, t) if isinstance(t, type) else any(issubclass(float, x) for x in t)
    # bound method of compiled pattern: .match(s)
    if isinstance(f, types.BuiltinMethodType) and isinstance(getattr(f, '__self__', None), re.Pattern):
        if f.__name__ in ('match', 'fullmatch', 'search') and isinstance(args[0], SymStr):
            return _regex.run(self, f.__self__, args[0], f.__name__, *args[1:2])
        raise Unsupported('re.Pattern.%s on a symbolic string' % f.__name__)
    if f in (re.match, re.fullmatch, re.search) and isinstance(args[1], SymStr):
        pat = re.compile(args[0], args[2] if len(args) > 2 else kwargs.get('flags', 0))
        return _regex.run(self, pat, args[1], f.__name__)
    # int.__new__(cls, x): typed integer construction
    if f is int.__new__ or getattr(f, '__name__', '') == '__new__':
        cls = args[0]; rest = args[1:]
        if isinstance(cls, type) and issubclass(cls, int):
            v = self.call_model(int, list(rest), kwargs) if not isinstance(rest[0], SymInt) else rest[0]
            v2 = SymInt(v.t) if isinstance(v, SymInt) else v
            return ('typed', cls, v2)
        if isinstance(cls, type) and issubclass(cls, float):
            return ('typed', cls, rest[0])
    return _prev_call_model(self, f, args, kwargs)
Engine.call_model = call_model3

# str.strip on SymStr
_prev_str_method = symstr.str_method
def str_method3(frame, obj, name, args):
    if name == 'strip' and not args: return lower(strip_ws(frame.eng, obj))
    return _prev_str_method(frame, obj, name, args)
symstr.str_method = str_method3

# zero-argument super() inside interpreted methods
_prev_lookup = Frame.lookup
def lookup3(self, name):
    if name == 'super':
        fn = self.fn
        def _super():
            qual = fn.__qualname__.split('.')
            cls = fn.__globals__[qual[0]]
            first = next(iter(self.env.values()))
            return builtins.super(cls, first if not isinstance(first, type) else first)
        return _super
    return _prev_lookup(self, name)
Frame.lookup = lookup3

# class call with symbolic args for repo classes: route to __new__
_prev_call = Engine.call
def call3(self, f, args, kwargs):
    if isinstance(f, type) and f not in self.stubs and f.__module__ in self.interp_modules and any(symi.is_sym(a) for a in args):
        new = f.__new__
        if isinstance(new, types.FunctionType):
            return self.call_interp(new, [f] + list(args), kwargs)
        return self.call_model(new, [f] + list(args), kwargs)
    return _prev_call(self, f, args, kwargs)
Engine.call = call3
