"""String extension of the E2 prototype: code-point lists of concrete length."""
import ast, z3
from .core import *
from . import core as symi

class SymStr:
    __slots__ = ('cs',)
    def __init__(self, cs): self.cs = list(cs)
    def __len__(self): return len(self.cs)
    def __iter__(self):
        for c in self.cs:
            yield chr(c) if isinstance(c, int) else SymStr([c])
    def __repr__(self): return 'SymStr(%r)' % (self.cs,)
    def is_concrete(self): return all(isinstance(c, int) for c in self.cs)
    def concrete(self): return ''.join(chr(c) for c in self.cs)

def lift(s):
    if isinstance(s, SymStr): return s
    if isinstance(s, str): return SymStr([ord(c) for c in s])
    raise Unsupported('lift %r' % (s,))
def lower(x):
    return x.concrete() if isinstance(x, SymStr) and x.is_concrete() else x
def ceq(a, b):
    if isinstance(a, int) and isinstance(b, int): return a == b
    return (z3.IntVal(a) if isinstance(a, int) else a) == (z3.IntVal(b) if isinstance(b, int) else b)

_old_is_sym = symi.is_sym
def is_sym2(v): return isinstance(v, (SymInt, SymBool, SymStr))
symi.is_sym = is_sym2

# --- Engine.eq for strings
_old_eq = Engine.eq
def eq2(self, a, b):
    if isinstance(a, SymStr) or isinstance(b, SymStr):
        if not isinstance(a, (SymStr, str)) or not isinstance(b, (SymStr, str)): return False
        a = lift(a); b = lift(b)
        if len(a) != len(b): return False
        conds = [ceq(x, y) for x, y in zip(a.cs, b.cs)]
        if any(c is False for c in conds): return False
        conds = [c for c in conds if c is not True]
        if not conds: return True
        return SymBool(z3.And(*conds))
    return _old_eq(self, a, b)
Engine.eq = eq2

_old_call_model = Engine.call_model
def call_model2(self, f, args, kwargs):
    if f is len and isinstance(args[0], SymStr): return len(args[0])
    if f is isinstance and isinstance(args[0], SymStr):
        t = args[1]; return issubclass(str, t) if isinstance(t, type) else any(issubclass(str, x) for x in t)
    if f is ord and isinstance(args[0], SymStr) and len(args[0]) == 1:
        c = args[0].cs[0]; return c if isinstance(c, int) else SymInt(c)
    return _old_call_model(self, f, args, kwargs)
Engine.call_model = call_model2

def str_method(frame, obj, name, args):
    eng = frame.eng
    if name == 'replace':
        a, b = args
        if not isinstance(a, str) or not isinstance(b, str) or len(a) != 1: raise Unsupported('replace form')
        out = []
        for c in obj.cs:
            hit = ceq(c, ord(a))
            if (hit if isinstance(hit, bool) else eng.branch(hit)): out.extend(ord(x) for x in b)
            else: out.append(c)
        return lower(SymStr(out))
    if name == 'upper' or name == 'lower':
        out = []
        for c in obj.cs:
            if isinstance(c, int): out.append(ord(getattr(chr(c), name)())); continue
            if not eng.branch(c < 128):
                # non-ASCII: only for code points of the harness-declared finite domain
                for x in getattr(eng, 'nonascii_domain', ()):
                    if eng.branch(c == x):
                        out.extend(ord(y) for y in getattr(chr(x), name)())
                        break
                else:
                    raise Unsupported('non-ASCII %s() outside the declared domain' % name)
                continue
            lo, hi, d = (97, 122, -32) if name == 'upper' else (65, 90, 32)
            if eng.branch(z3.And(c >= lo, c <= hi)): out.append(c + d)
            else: out.append(c)
        return lower(SymStr(out))
    if name == 'isdigit':
        r = True
        for c in obj.cs:
            if isinstance(c, int): ok = chr(c).isdigit()
            else:
                if not eng.branch(c < 128):
                    for x in getattr(eng, 'nonascii_domain', ()):
                        if eng.branch(c == x):
                            ok = chr(x).isdigit()
                            break
                    else:
                        raise Unsupported('non-ASCII isdigit() outside the declared domain')
                else:
                    ok = eng.branch(z3.And(c >= 48, c <= 57))
            if not ok: return False
        return len(obj.cs) > 0
    if name in ('startswith', 'endswith') and len(args) == 1 and isinstance(args[0], str):
        a = args[0]
        if len(a) > len(obj.cs):
            return False
        part = obj.cs[:len(a)] if name == 'startswith' else obj.cs[len(obj.cs) - len(a):]
        return eng.truth(eng.eq(SymStr(part), a))
    raise Unsupported('str method %s on symbolic' % name)

# --- Frame patches
_old_ex_Call = Frame.ex_Call
def ex_Call2(self, e):
    if isinstance(e.func, ast.Attribute):
        obj = self.ev(e.func.value)
        if isinstance(obj, SymStr):
            args = [self.ev(a) for a in e.args]
            return str_method(self, obj, e.func.attr, args)
        # re-evaluate through old path but avoid double evaluation: emulate
        args = []
        for a in e.args:
            if isinstance(a, ast.Starred): args.extend(self.ev(a.value))
            else: args.append(self.ev(a))
        kwargs = {}
        for k in e.keywords:
            if k.arg is None: kwargs.update(self.ev(k.value))
            else: kwargs[k.arg] = self.ev(k.value)
        if isinstance(obj, list) and e.func.attr == 'append': obj.append(args[0]); return None
        if isinstance(obj, list) and e.func.attr == 'extend': obj.extend(args[0]); return None
        try: f = getattr(obj, e.func.attr)
        except AttributeError as ex: raise PyRaise(ex)
        return self.eng.call(f, args, kwargs)
    return _old_ex_Call(self, e)
Frame.ex_Call = ex_Call2

_old_ex_Subscript = Frame.ex_Subscript
def ex_Subscript2(self, e):
    obj = self.ev(e.value)
    if isinstance(obj, SymStr):
        k = self.ev(e.slice)
        if is_sym2(k): raise Unsupported('symbolic index into SymStr')
        try:
            if isinstance(k, slice): return lower(SymStr(obj.cs[k]))
            return lower(SymStr([obj.cs[k]]))
        except IndexError as ex: raise PyRaise(ex)
    # avoid double evaluation of e.value: inline old logic
    k = self.ev(e.slice)
    if isinstance(obj, SymDict): return obj.getitem(k)
    if is_sym2(k): raise Unsupported('symbolic index')
    try: return obj[k]
    except (KeyError, IndexError, TypeError) as ex: raise PyRaise(ex)
Frame.ex_Subscript = ex_Subscript2

_old_binop = Frame.binop
def binop2(self, op, a, b):
    if isinstance(a, SymStr) or isinstance(b, SymStr):
        if op is ast.Add and isinstance(a, (str, SymStr)) and isinstance(b, (str, SymStr)):
            return lower(SymStr(lift(a).cs + lift(b).cs))
        raise Unsupported('binop on SymStr')
    return _old_binop(self, op, a, b)
Frame.binop = binop2

_old_cmp = Frame.cmp
def cmp2(self, op, a, b):
    if op in (ast.In, ast.NotIn) and isinstance(a, SymStr) and isinstance(b, str):
        # single char in a string of candidates
        if len(a) != 1: raise Unsupported('substring test on SymStr')
        c = a.cs[0]
        if isinstance(c, int):
            found = chr(c) in b
        elif not b:
            found = False
        else:
            # one fork for the whole membership test (not one per candidate character)
            found = self.eng.branch(z3.Or(*[c == ord(ch) for ch in b]))
        return found if op is ast.In else not found
    return _old_cmp(self, op, a, b)
Frame.cmp = cmp2
