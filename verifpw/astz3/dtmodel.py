"""E2 extensions needed by the CIMDateTime kernels:
 * name mangling of private attributes, interpretation of properties defined in the
   interpret set, attribute access on model objects;
 * f-string integer formatting `f'{v:0Nd}'` as FRESH DIGIT VARIABLES with the linear
   constraint v = sum d_i 10^i (DESIGN.md: div/mod and str.from_int encodings time out);
 * `in`, index, rindex, `*` on code-point-list strings;
 * int / const true division as exact rationals, int(real);
 * contracts for datetime.datetime(...), datetime.timedelta(...), MinutesFromUTC(...):
   model objects with symbolic fields, range checks as in CPython (ValueError), no
   normalisation outside the stated canonical field ranges (Unsupported otherwise).
Importing this module patches the engine classes (like strings/contracts do).
"""
import ast
import inspect
import z3
from . import core as symi
from .core import Engine, Frame, SymInt, SymBool, PyRaise, Unsupported, zint
from .strings import SymStr, lift, lower, ceq
from .contracts import SymReal
from . import strings as symstr


# ---------------------------------------------------------------- fresh definitional variables
def fresh(eng, prefix):
    eng.fresh_n = getattr(eng, 'fresh_n', 0) + 1
    return z3.Int('%s_%d' % (prefix, eng.fresh_n))


_old_explore = Engine.explore


def _explore(self, thunk, on_path, deadline=None):
    def thunk2():
        self.fresh_n = 0
        return thunk()
    return _old_explore(self, thunk2, on_path, deadline)


Engine.explore = _explore


def fmt_int(eng, v, width, zero=True):
    """f'{v:0{width}d}' for symbolic v: digits are fresh variables tied to v linearly."""
    if isinstance(v, int):
        return format(v, '0%dd' % width)
    t = zint(v)
    if not eng.branch(z3.And(t >= 0, t < 10 ** width)):
        raise Unsupported('integer formatting outside 0..10^%d-1 (sign or extra digits)' % width)
    ds = [fresh(eng, 'dg') for _ in range(width)]
    cons = [z3.And(d >= 0, d <= 9) for d in ds]
    cons.append(t == z3.Sum([ds[i] * (10 ** (width - 1 - i)) for i in range(width)]))
    eng.solver.add(*cons)
    return SymStr([48 + d for d in ds])


# ---------------------------------------------------------------- Frame patches
def _mangle(frame, attr):
    if attr.startswith('__') and not attr.endswith('__'):
        q = frame.fn.__qualname__.split('.')
        if len(q) >= 2:
            return '_%s%s' % (q[-2].lstrip('_'), attr)
    return attr


_old_ex_Attribute = Frame.ex_Attribute


def ex_Attribute(self, e):
    obj = self.ev(e.value)
    attr = _mangle(self, e.attr)
    if isinstance(obj, Model):
        try:
            return obj.getattr(self.eng, attr)
        except AttributeError as ex:
            raise PyRaise(ex)
    if symi.is_sym(obj):
        raise Unsupported('attr %s of symbolic' % attr)
    # properties defined in interpreted modules are interpreted (their code may touch symbolic state)
    try:
        static = inspect.getattr_static(type(obj), attr)
    except AttributeError:
        static = None
    if isinstance(static, property) and static.fget is not None and \
            getattr(static.fget, '__module__', None) in self.eng.interp_modules and not isinstance(obj, type):
        return self.eng.call_interp(static.fget, [obj], {})
    try:
        return getattr(obj, attr)
    except AttributeError as ex:
        raise PyRaise(ex)


Frame.ex_Attribute = ex_Attribute

_old_assign = Frame.assign


def assign(self, t, v):
    if isinstance(t, ast.Attribute):
        obj = self.ev(t.value)
        setattr(obj, _mangle(self, t.attr), v)
        return
    return _old_assign(self, t, v)


Frame.assign = assign


def ex_JoinedStr(self, e):
    parts = []
    for v in e.values:
        if isinstance(v, ast.Constant):
            parts.append(v.value)
            continue
        x = self.ev(v.value)
        spec = self.ev(v.format_spec) if v.format_spec else ''
        if isinstance(spec, SymStr):
            raise Unsupported('symbolic format spec')
        if isinstance(x, SymInt):
            import re as _re
            m = _re.fullmatch(r'0(\d+)d', spec)
            if not m:
                raise Unsupported('format spec %r for a symbolic int' % spec)
            parts.append(fmt_int(self.eng, x, int(m.group(1))))
        elif isinstance(x, SymStr):
            if spec not in ('', 's') or v.conversion not in (-1, 115):
                raise Unsupported('format of symbolic str')
            parts.append(x)
        elif symi.is_sym(x) or isinstance(x, Model):
            raise Unsupported('format of symbolic %s' % type(x).__name__)
        else:
            conv = {115: str, 114: repr, 97: ascii}.get(v.conversion)
            parts.append(format(conv(x) if conv else x, spec))
    out = []
    for p in parts:
        out.extend(lift(p).cs)
    return lower(SymStr(out))


Frame.ex_JoinedStr = ex_JoinedStr

_old_cmp = Frame.cmp


def cmp(self, op, a, b):
    if op in (ast.In, ast.NotIn) and isinstance(b, SymStr) and isinstance(a, (str, SymStr)):
        a_ = lift(a)
        if len(a_.cs) != 1:
            raise Unsupported('substring test in a symbolic string')
        found = False
        for c in b.cs:
            r = ceq(c, a_.cs[0])
            if (r if isinstance(r, bool) else self.eng.branch(r)):
                found = True
                break
        return found if op is ast.In else not found
    if op in (ast.Is, ast.IsNot):
        return (a is b) if op is ast.Is else (a is not b)
    if isinstance(a, SymReal) or isinstance(b, SymReal):
        return _cmp_real(self, op, a, b)
    return _old_cmp(self, op, a, b)


Frame.cmp = cmp


def _zreal(v):
    if isinstance(v, SymReal):
        if v.kind != 'finite':
            raise Unsupported('non-finite real arithmetic')
        return v.t
    if isinstance(v, SymInt):
        return z3.ToReal(v.t)
    if isinstance(v, (int, float)) and not isinstance(v, bool):
        return z3.RealVal(repr(v) if isinstance(v, float) else v)
    raise Unsupported('real of %r' % (v,))


def _cmp_real(self, op, a, b):
    za, zb = _zreal(a), _zreal(b)
    tbl = {ast.Lt: za < zb, ast.LtE: za <= zb, ast.Gt: za > zb, ast.GtE: za >= zb, ast.Eq: za == zb, ast.NotEq: za != zb}
    if op not in tbl:
        raise Unsupported('real comparison')
    return SymBool(tbl[op])


_old_binop = Frame.binop


def binop(self, op, a, b):
    if isinstance(a, SymReal) or isinstance(b, SymReal):
        za, zb = _zreal(a), _zreal(b)
        if op is ast.Add:
            return SymReal('finite', za + zb)
        if op is ast.Sub:
            return SymReal('finite', za - zb)
        if op is ast.Mult and not (symi.is_sym(a) and symi.is_sym(b)):
            return SymReal('finite', za * zb)
        if op is ast.Div and not symi.is_sym(b):
            return SymReal('finite', za / zb)
        raise Unsupported('real binop %s' % op.__name__)
    if op is ast.Div and isinstance(a, SymInt) and isinstance(b, int) and not isinstance(b, bool) and b != 0:
        # int / const: exact rational (a float in CPython; exact while |a| < 2**53, which the
        # callers' ranges guarantee - stated in the harness bounds)
        return SymReal('finite', z3.ToReal(a.t) / b)
    if op is ast.FloorDiv and isinstance(a, SymInt) and isinstance(b, int) and b > 0:
        q = fresh(self.eng, 'q')
        r = fresh(self.eng, 'r')
        self.eng.solver.add(a.t == q * b + r, r >= 0, r < b)
        return SymInt(q)
    if op is ast.Mod and isinstance(a, SymInt) and isinstance(b, int) and b > 0:
        q = fresh(self.eng, 'q')
        r = fresh(self.eng, 'r')
        self.eng.solver.add(a.t == q * b + r, r >= 0, r < b)
        return SymInt(r)
    if op is ast.Mult and isinstance(a, str) and isinstance(b, int):
        return a * b
    if op is ast.LShift and isinstance(a, SymInt) and isinstance(b, int) and b >= 0:
        return SymInt(a.t * (2 ** b))
    if op is ast.BitOr and (isinstance(a, SymInt) or isinstance(b, SymInt)):
        # a | b == a + b when the operands occupy disjoint bit ranges: decided by the solver
        # (a is a multiple of 2^k and 0 <= b < 2^k for some k); anything else is unsupported
        za, zb = zint(a), zint(b)
        for k in (4, 8, 16, 32):
            self.eng.queries += 1
            self.eng.solver.push()
            self.eng.solver.add(z3.Not(z3.And(za % (2 ** k) == 0, zb >= 0, zb < 2 ** k)))
            ok = self.eng.solver.check() == z3.unsat
            self.eng.solver.pop()
            if ok:
                return SymInt(za + zb)
        raise Unsupported('bitwise or of symbolic ints with overlapping bit ranges')
    return _old_binop(self, op, a, b)


Frame.binop = binop

_old_unary = Frame.ex_UnaryOp


def ex_UnaryOp(self, e):
    if isinstance(e.op, ast.USub):
        v = self.ev(e.operand)
        if isinstance(v, SymReal):
            return SymReal('finite', -_zreal(v))
        if symi.is_sym(v):
            return SymInt(-zint(v))
        return -v
    return _old_unary(self, e)


Frame.ex_UnaryOp = ex_UnaryOp

# str methods: index / rindex / find / count of a single character
_prev_str_method = symstr.str_method


def str_method(frame, obj, name, args):
    eng = frame.eng
    if name in ('index', 'rindex', 'find', 'rfind') and len(args) == 1 and isinstance(args[0], str) and len(args[0]) == 1:
        ch = ord(args[0])
        rng = range(len(obj.cs)) if name in ('index', 'find') else range(len(obj.cs) - 1, -1, -1)
        for i in rng:
            r = ceq(obj.cs[i], ch)
            if (r if isinstance(r, bool) else eng.branch(r)):
                return i
        if name in ('find', 'rfind'):
            return -1
        raise PyRaise(ValueError('substring not found'))
    return _prev_str_method(frame, obj, name, args)


symstr.str_method = str_method


# ---------------------------------------------------------------- model objects
class Model:
    """Base of contract objects that stand for library objects with symbolic fields."""
    def getattr(self, eng, name):
        if name in self.fields:
            return self.fields[name]
        m = getattr(self, 'm_' + name, None)
        if m is None:
            raise Unsupported('%s.%s is not modelled' % (type(self).__name__, name))
        return lambda *a, **k: m(eng, *a, **k)


class SymTD(Model):
    """datetime.timedelta with normalised fields days, seconds (0..86399), microseconds (0..999999)."""
    def __init__(self, days, seconds, microseconds):
        self.fields = {'days': days, 'seconds': seconds, 'microseconds': microseconds}


class SymTZ(Model):
    def __init__(self, offset):
        self.fields = {'offset': offset}


class SymDT(Model):
    def __init__(self, y, mo, d, h, mi, s, us, tz):
        self.fields = {'year': y, 'month': mo, 'day': d, 'hour': h, 'minute': mi, 'second': s, 'microsecond': us, 'tzinfo': tz}

    def m_utcoffset(self, eng):
        tz = self.fields['tzinfo']
        if tz is None:
            return None
        m = tz.fields['offset']
        if isinstance(m, int):
            import datetime as _d
            td = _d.timedelta(minutes=m)
            return SymTD(td.days, td.seconds, 0)
        # |offset| < 1440 checked at construction: timedelta(minutes=m) normalises to days in {-1, 0}
        if eng.truth(SymBool(m.t < 0)):
            return SymTD(-1, SymInt(86400 + 60 * m.t), 0)
        return SymTD(0, SymInt(60 * m.t), 0)


def _rng(eng, v, lo, hi, what):
    if isinstance(v, int):
        ok = lo <= v <= hi
    else:
        ok = eng.branch(z3.And(zint(v) >= lo, zint(v) <= hi))
    if not ok:
        raise PyRaise(ValueError('%s must be in %d..%d' % (what, lo, hi)))


def stub_datetime(eng, year, month, day, hour=0, minute=0, second=0, microsecond=0, tzinfo=None):
    """datetime.datetime(...) contract: CPython's range checks, then a model object."""
    _rng(eng, year, 1, 9999, 'year')
    _rng(eng, month, 1, 12, 'month')
    # days in month (forks on month class and leap year)
    def is_(v, k):
        return (v == k) if isinstance(v, int) else eng.branch(zint(v) == k)
    if any(is_(month, k) for k in (4, 6, 9, 11)):
        dim = 30
    elif is_(month, 2):
        y = zint(year)
        leap = z3.Or(z3.And(y % 4 == 0, y % 100 != 0), y % 400 == 0)
        dim = 29 if eng.branch(z3.simplify(leap)) else 28
    else:
        dim = 31
    _rng(eng, day, 1, dim, 'day')
    _rng(eng, hour, 0, 23, 'hour')
    _rng(eng, minute, 0, 59, 'minute')
    _rng(eng, second, 0, 59, 'second')
    _rng(eng, microsecond, 0, 999999, 'microsecond')
    if tzinfo is not None and not isinstance(tzinfo, SymTZ):
        raise Unsupported('tzinfo model')
    if tzinfo is not None:
        off = tzinfo.fields['offset']
        # utcoffset() must be strictly between -24h and 24h; checked lazily by CPython at
        # utcoffset() time; MinutesFromUTC offsets of 3 digits are always inside
        _rng(eng, off, -1439, 1439, 'utcoffset minutes')
    return SymDT(year, month, day, hour, minute, second, microsecond, tzinfo)


def stub_timedelta(eng, days=0, seconds=0, microseconds=0, milliseconds=0, minutes=0, hours=0, weeks=0):
    """datetime.timedelta(...) contract for non-negative fields with hours/minutes/seconds <= 99
    and microseconds <= 999999 (what two/six decimal digits can hold): the carry into days
    (0..4) is resolved by forking; the result is CPython's normalised (days, seconds, us)."""
    for v, hi, what in ((hours, 99, 'hours'), (minutes, 99, 'minutes'), (seconds, 99, 'seconds'), (microseconds, 999999, 'microseconds')):
        if isinstance(v, int):
            ok = 0 <= v <= hi
        else:
            ok = eng.branch(z3.And(zint(v) >= 0, zint(v) <= hi))
        if not ok:
            raise Unsupported('timedelta() field %s outside 0..%d (not modelled)' % (what, hi))
    if milliseconds != 0 or weeks != 0:
        raise Unsupported('timedelta milliseconds/weeks')
    total = zint(hours) * 3600 + zint(minutes) * 60 + zint(seconds)
    k = 0
    while k < 4:
        if eng.branch(z3.simplify(total < 86400 * (k + 1))):
            break
        k += 1
    d2 = SymInt(z3.simplify(zint(days) + k)) if not isinstance(days, int) else days + k
    _rng(eng, d2, -999999999, 999999999, 'days')        # OverflowError in CPython; same family for the callers
    secs = SymInt(z3.simplify(total - 86400 * k))
    return SymTD(d2, secs, microseconds)


def stub_tz(eng, offset):
    return SymTZ(offset)


_prev_call_model = Engine.call_model


def call_model(self, f, args, kwargs):
    if f is int and len(args) == 1 and isinstance(args[0], SymReal):
        r = args[0]
        if r.kind != 'finite':
            return _prev_call_model(self, f, args, kwargs)
        t = r.t
        return SymInt(z3.If(t >= 0, z3.ToInt(t), -z3.ToInt(-t)))
    if f is chr and len(args) == 1 and isinstance(args[0], SymInt):
        t = args[0].t
        if not self.branch(z3.And(t >= 0, t <= 0x10FFFF)):
            raise PyRaise(ValueError('chr() arg not in range(0x110000)'))
        return SymStr([t])
    if f is max or f is min:
        if len(args) == 2 and not kwargs and all(isinstance(a, (int, SymInt)) for a in args):
            a, b = args
            take_a = self.truth(SymBool(zint(a) >= zint(b))) if f is max else self.truth(SymBool(zint(a) <= zint(b)))
            return a if take_a else b
    if f is isinstance and isinstance(args[0], Model):
        import datetime as _d
        t = args[1]
        ts = t if isinstance(t, tuple) else (t,)
        kinds = {SymDT: _d.datetime, SymTD: _d.timedelta, SymTZ: _d.tzinfo}
        real = kinds[type(args[0])]
        return any(isinstance(x, type) and issubclass(real, x) for x in ts)
    return _prev_call_model(self, f, args, kwargs)


Engine.call_model = call_model

_prev_is_sym = symi.is_sym
symi.is_sym = lambda v: _prev_is_sym(v) or isinstance(v, Model)
symstr.is_sym2 = symi.is_sym


# method calls on model objects
_prev_ex_Call = Frame.ex_Call


def ex_Call(self, e):
    if isinstance(e.func, ast.Attribute):
        obj = self.ev(e.func.value)
        if isinstance(obj, Model):
            args = [self.ev(a) for a in e.args]
            kwargs = {k.arg: self.ev(k.value) for k in e.keywords}
            return obj.getattr(self.eng, e.func.attr)(*args, **kwargs)
    return _prev_ex_Call(self, e)


Frame.ex_Call = ex_Call
