"""Regex contract for E2: Python `re` semantics on code-point lists.

The compiled pattern found in the module under test is parsed with sre_parse and executed
by a backtracking matcher (continuation passing) whose character tests fork through the
engine.  Python's semantics are kept explicit: match = anchored at start only, `$` also
before a final newline, greedy/lazy repeats, leftmost alternative first, capture groups,
IGNORECASE incl. CPython's extra case equivalences (re._casefix), UNICODE categories
(\\d \\s \\w computed from the running interpreter's Unicode tables).  Unsupported nodes
(look-around, back-references, conditionals) raise Unsupported -> ENCODING-UNSUPPORTED.
"""
import re
import sys
import unicodedata
import z3
try:
    import re._parser as sre_parse
    import re._casefix as _casefix
    _EXTRA = _casefix._EXTRA_CASES
except ImportError:          # pragma: no cover
    import sre_parse
    _EXTRA = {}
import _sre
from .core import Unsupported, PyRaise, SymInt
from .strings import SymStr, lift, lower, ceq

MAXCP = 0x110000
_CACHE = {}


def _ranges_of(pred):
    out = []
    start = None
    for cp in range(MAXCP):
        if pred(cp):
            if start is None:
                start = cp
        elif start is not None:
            out.append((start, cp - 1))
            start = None
    if start is not None:
        out.append((start, MAXCP - 1))
    return out


def category_ranges(cat):
    if cat not in _CACHE:
        if cat == 'DIGIT':
            _CACHE[cat] = _ranges_of(lambda cp: unicodedata.category(chr(cp)) == 'Nd')
        elif cat == 'SPACE':
            _CACHE[cat] = _ranges_of(lambda cp: chr(cp).isspace())
        elif cat == 'WORD':
            _CACHE[cat] = _ranges_of(lambda cp: chr(cp).isalnum() or cp == 95)
        else:
            raise Unsupported('regex category %s' % cat)
    return _CACHE[cat]


def _lower_preimage():
    if 'pre' not in _CACHE:
        pre = {}
        for cp in range(MAXCP):
            lo = _sre.unicode_tolower(cp)
            if lo != cp:
                pre.setdefault(lo, []).append(cp)
        _CACHE['pre'] = pre
    return _CACHE['pre']


def ignorecase_class(cp):
    """All code points that a LITERAL cp matches under IGNORECASE|UNICODE."""
    lo = _sre.unicode_tolower(cp)
    targets = {lo} | set(_EXTRA.get(lo, ()))
    pre = _lower_preimage()
    out = set()
    for t in targets:
        out.add(t)
        out.update(pre.get(t, ()))
    return sorted(out)


def _in_ranges(c, ranges):
    if isinstance(c, int):
        return any(lo <= c <= hi for lo, hi in ranges)
    if not ranges:
        return False
    return z3.Or(*[(c == lo) if lo == hi else z3.And(c >= lo, c <= hi) for lo, hi in ranges])


def _set_ranges(items, flags):
    """(ranges, negate) of an IN node."""
    neg = False
    rs = []
    ic = bool(flags & re.IGNORECASE)
    for op, av in items:
        ops = str(op)
        if ops == 'NEGATE':
            neg = True
        elif ops == 'LITERAL':
            if ic:
                rs.extend((x, x) for x in ignorecase_class(av))
            else:
                rs.append((av, av))
        elif ops == 'RANGE':
            lo, hi = av
            if ic:
                if hi - lo > 4096:
                    raise Unsupported('large IGNORECASE range')
                for x in range(lo, hi + 1):
                    rs.extend((y, y) for y in ignorecase_class(x))
            else:
                rs.append((lo, hi))
        elif ops == 'CATEGORY':
            cat = str(av).replace('CATEGORY_', '')
            if cat.startswith('NOT_'):
                base = category_ranges(cat[4:])
                # complement
                comp = []
                prev = 0
                for lo, hi in base:
                    if lo > prev:
                        comp.append((prev, lo - 1))
                    prev = hi + 1
                if prev < MAXCP:
                    comp.append((prev, MAXCP - 1))
                rs.extend(comp)
            else:
                rs.extend(category_ranges(cat))
        else:
            raise Unsupported('regex class item %s' % ops)
    # merge
    rs.sort()
    merged = []
    for lo, hi in rs:
        if merged and lo <= merged[-1][1] + 1:
            merged[-1] = (merged[-1][0], max(hi, merged[-1][1]))
        else:
            merged.append((lo, hi))
    return merged, neg


class SymMatch:
    """Result of a successful match: spans are concrete positions (lengths are concrete)."""

    def __init__(self, s, spans, start, end, ngroups, groupindex):
        self.string = s
        self.spans = spans
        self.start_, self.end_ = start, end
        self.ngroups = ngroups
        self.groupindex = groupindex

    def _one(self, g):
        if isinstance(g, str):
            g = self.groupindex[g]
        if g == 0:
            return lower(SymStr(self.string.cs[self.start_:self.end_]))
        if g > self.ngroups:
            raise PyRaise(IndexError('no such group'))
        sp = self.spans.get(g)
        if sp is None:
            return None
        return lower(SymStr(self.string.cs[sp[0]:sp[1]]))

    def group(self, *gs):
        if not gs:
            return self._one(0)
        if len(gs) == 1:
            return self._one(gs[0])
        return tuple(self._one(g) for g in gs)

    def groups(self, default=None):
        return tuple(self._one(g) if self.spans.get(g) is not None else default for g in range(1, self.ngroups + 1))

    def groupdict(self, default=None):
        return {k: (self._one(v) if self.spans.get(v) is not None else default) for k, v in self.groupindex.items()}

    def start(self, g=0):
        return self.start_ if g == 0 else self.spans[g][0]

    def end(self, g=0):
        return self.end_ if g == 0 else self.spans[g][1]

    def span(self, g=0):
        return (self.start(g), self.end(g))

    def __bool__(self):
        return True


def _test(eng, cond):
    if isinstance(cond, bool):
        return cond
    return eng.branch(cond)


def _m(eng, items, idx, s, pos, spans, k, flags):
    if idx == len(items):
        return k(pos, spans)
    op, av = items[idx]
    ops = str(op)
    n = len(s.cs)

    def nxt(p, sp):
        return _m(eng, items, idx + 1, s, p, sp, k, flags)

    def one(cond_of):
        if pos >= n:
            return None
        return nxt(pos + 1, spans) if _test(eng, cond_of(s.cs[pos])) else None

    if ops == 'LITERAL':
        if flags & re.IGNORECASE:
            cls = [(x, x) for x in ignorecase_class(av)]
            return one(lambda c: _in_ranges(c, cls))
        return one(lambda c: ceq(c, av))
    if ops == 'NOT_LITERAL':
        if flags & re.IGNORECASE:
            cls = [(x, x) for x in ignorecase_class(av)]
            if pos >= n:
                return None
            return nxt(pos + 1, spans) if not _test(eng, _in_ranges(s.cs[pos], cls)) else None
        if pos >= n:
            return None
        return nxt(pos + 1, spans) if not _test(eng, ceq(s.cs[pos], av)) else None
    if ops == 'ANY':
        if flags & re.DOTALL:
            return one(lambda c: True)
        if pos >= n:
            return None
        return nxt(pos + 1, spans) if not _test(eng, ceq(s.cs[pos], 10)) else None
    if ops == 'IN':
        rs, neg = _set_ranges(av, flags)
        if pos >= n:
            return None
        r = _test(eng, _in_ranges(s.cs[pos], rs))
        return nxt(pos + 1, spans) if (r != neg) else None
    if ops == 'AT':
        a = str(av)
        if a in ('AT_BEGINNING', 'AT_BEGINNING_STRING'):
            if flags & re.MULTILINE and a == 'AT_BEGINNING':
                raise Unsupported('MULTILINE')
            return nxt(pos, spans) if pos == 0 else None
        if a == 'AT_END':
            if flags & re.MULTILINE:
                raise Unsupported('MULTILINE')
            if pos == n:
                return nxt(pos, spans)
            if pos == n - 1 and _test(eng, ceq(s.cs[pos], 10)):
                return nxt(pos, spans)
            return None
        if a == 'AT_END_STRING':
            return nxt(pos, spans) if pos == n else None
        raise Unsupported('regex AT %s' % a)
    if ops == 'SUBPATTERN':
        gid, add_flags, del_flags, sub = av
        f2 = (flags | add_flags) & ~del_flags
        start = pos

        def after(p, sp):
            if gid is not None:
                sp = dict(sp)
                sp[gid] = (start, p)
            return nxt(p, sp)
        return _m(eng, list(sub), 0, s, pos, spans, after, f2)
    if ops == 'BRANCH':
        for alt in av[1]:
            r = _m(eng, list(alt), 0, s, pos, spans, nxt, flags)
            if r is not None:
                return r
        return None
    if ops in ('MAX_REPEAT', 'MIN_REPEAT', 'POSSESSIVE_REPEAT'):
        if ops == 'POSSESSIVE_REPEAT':
            raise Unsupported('possessive repeat')
        lo, hi, sub = av
        sub = list(sub)
        hi = 10 ** 9 if str(hi) == 'MAXREPEAT' else hi

        def rep(count, p, sp):
            if ops == 'MAX_REPEAT':
                if count < hi:
                    r = _m(eng, sub, 0, s, p, sp,
                           lambda p2, sp2: rep(count + 1, p2, sp2) if (p2 > p or count < lo) else None, flags)
                    if r is not None:
                        return r
                return nxt(p, sp) if count >= lo else None
            if count >= lo:
                r = nxt(p, sp)
                if r is not None:
                    return r
            if count < hi:
                return _m(eng, sub, 0, s, p, sp,
                          lambda p2, sp2: rep(count + 1, p2, sp2) if (p2 > p or count < lo) else None, flags)
            return None
        return rep(0, pos, spans)
    raise Unsupported('regex op %s' % ops)


def _parse(pat):
    key = ('tree', pat.pattern, pat.flags)
    if key not in _CACHE:
        _CACHE[key] = list(sre_parse.parse(pat.pattern, pat.flags))
    return _CACHE[key]


def run(eng, pat, s, mode, pos0=0):
    """mode: 'match' | 'fullmatch' | 'search'. Returns SymMatch or None."""
    s = lift(s)
    tree = _parse(pat)
    flags = pat.flags
    n = len(s.cs)
    starts = [pos0] if mode != 'search' else list(range(pos0, n + 1))
    for st in starts:
        def end(p, sp, st=st):
            if mode == 'fullmatch' and p != n:
                return None
            return SymMatch(s, sp, st, p, pat.groups, dict(pat.groupindex))
        r = _m(eng, tree, 0, s, st, {}, end, flags)
        if r is not None:
            return r
    return None
