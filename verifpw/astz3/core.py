"""
Prototype (design-phase probe, not framework code): symbolic AST interpreter for a
Python subset on z3.  Concrete operands run natively, symbolic ints/bools are z3 terms,
branches on symbolic conditions fork (re-execution with a decision prefix).
"""
import ast, inspect, textwrap, operator, types, builtins, time, sys
import z3


class SymInt:
    __slots__ = ('t',)
    def __init__(self, t): self.t = t
    def __repr__(self): return 'SymInt(%s)' % self.t

class SymBool:
    __slots__ = ('t',)
    def __init__(self, t): self.t = t
    def __repr__(self): return 'SymBool(%s)' % self.t

def is_sym(v): return isinstance(v, (SymInt, SymBool))
def zint(v):
    if isinstance(v, SymInt): return v.t
    if isinstance(v, bool): return z3.IntVal(int(v))
    if isinstance(v, int): return z3.IntVal(int(v))
    raise Unsupported('zint of %r' % (v,))

class Unsupported(Exception): pass
class PathInfeasible(Exception): pass

class PyRaise(Exception):
    """A Python exception raised by interpreted code (exc is a real exception object)."""
    def __init__(self, exc): self.exc = exc

class _Return(Exception):
    def __init__(self, v): self.v = v
class _Break(Exception): pass
class _Continue(Exception): pass


class SymDict:
    """dict whose keys may be symbolic ints: association list, lookups fork on equality."""
    def __init__(self, eng): self.eng = eng; self.items_ = []
    def setitem(self, k, v):
        for i, (k2, _) in enumerate(self.items_):
            if self.eng.truth(self.eng.eq(k, k2)):
                self.items_[i] = (k2, v); return
        self.items_.append((k, v))
    def getitem(self, k):
        for k2, v in self.items_:
            if self.eng.truth(self.eng.eq(k, k2)):
                return v
        raise PyRaise(KeyError(k))
    def keys(self): return [k for k, _ in self.items_]
    def values(self): return [v for _, v in self.items_]
    def items(self): return list(self.items_)
    def get(self, k, default=None):
        for k2, v in self.items_:
            if self.eng.truth(self.eng.eq(k, k2)):
                return v
        return default
    def contains(self, k):
        return any(self.eng.truth(self.eng.eq(k, k2)) for k2, _ in self.items_)
    def pop(self, k, *default):
        for i, (k2, v) in enumerate(self.items_):
            if self.eng.truth(self.eng.eq(k, k2)):
                del self.items_[i]; return v
        if default: return default[0]
        raise PyRaise(KeyError(k))
    def __len__(self): return len(self.items_)
    def __iter__(self): return iter(self.keys())


class Engine:
    def __init__(self, interp_modules, stubs=None, max_paths=100000):
        self.interp_modules = set(interp_modules)
        self.stubs = stubs or {}
        self.solver = z3.Solver()
        self.prefix = []
        self.pos = 0
        self.work = []
        self.paths = 0
        self.queries = 0
        self.src_cache = {}
        self.max_paths = max_paths
        self.funcs_seen = set()

    # ---- path management
    def truth(self, v):
        if isinstance(v, SymBool):
            return self.branch(v.t)
        if isinstance(v, SymInt):
            return self.branch(v.t != 0)
        return bool(v)

    def branch(self, cond):
        cond = z3.simplify(cond)
        if z3.is_true(cond): return True
        if z3.is_false(cond): return False
        if self.pos < len(self.prefix):
            d = self.prefix[self.pos]; self.pos += 1
            self.solver.add(cond if d else z3.Not(cond))
            return d
        self.queries += 2
        self.solver.push(); self.solver.add(cond); st = self.solver.check() == z3.sat; self.solver.pop()
        self.solver.push(); self.solver.add(z3.Not(cond)); sf = self.solver.check() == z3.sat; self.solver.pop()
        if st and sf:
            self.work.append(self.prefix[:self.pos] + [False])
            d = True
        elif st: d = True
        elif sf: d = False
        else: raise PathInfeasible()
        self.prefix.append(d); self.pos += 1
        self.solver.add(cond if d else z3.Not(cond))
        return d

    def eq(self, a, b):
        if is_sym(a) or is_sym(b):
            if isinstance(a, (SymInt, int)) and isinstance(b, (SymInt, int)) and not isinstance(a, bool) and not isinstance(b, bool):
                return SymBool(zint(a) == zint(b))
            if a is None or b is None or isinstance(a, str) or isinstance(b, str):
                return False
            raise Unsupported('eq %r %r' % (a, b))
        return a == b

    def explore(self, thunk, on_path, deadline=None):
        """Run thunk() on every feasible path; on_path(outcome, engine) checks the property.
        Returns True if the work list was exhausted (every feasible path checked), False if
        the deadline was hit first (bug hunting only)."""
        import time as _time
        self.work = [[]]
        while self.work:
            if deadline is not None and _time.time() > deadline:
                return False
            self.prefix = self.work.pop(); self.pos = 0
            self.solver.reset()
            self.approx = False      # set by contracts that over-approximate a value (e.g. float(str) -> free real)
            self.paths += 1
            if self.paths > self.max_paths: raise RuntimeError('path budget')
            try:
                out = ('return', thunk())
            except PyRaise as e:
                out = ('raise', e.exc)
            except PathInfeasible:
                continue
            self.completed = getattr(self, 'completed', 0) + 1
            on_path(out, self)
        return True

    def model_if_sat(self, extra):
        self.queries += 1
        self.solver.push(); self.solver.add(extra)
        r = self.solver.check()
        m = self.solver.model() if r == z3.sat else None
        self.solver.pop()
        return r, m

    # ---- calling
    def get_ast(self, fn):
        if fn not in self.src_cache:
            src = textwrap.dedent(inspect.getsource(fn))
            tree = ast.parse(src).body[0]
            self.src_cache[fn] = tree
            self.funcs_seen.add(fn.__module__ + '.' + fn.__qualname__)
        return self.src_cache[fn]

    def call(self, f, args, kwargs):
        if f in self.stubs:
            return self.stubs[f](self, *args, **kwargs)
        if isinstance(f, types.MethodType) and type(f.__self__).__name__ in ('SymDict', 'SymMatch'):
            return f(*args, **kwargs)         # association-list dict: its methods fork on key equality
        if isinstance(f, types.MethodType):
            if f.__func__ in self.stubs:
                return self.stubs[f.__func__](self, f.__self__, *args, **kwargs)
            return self.call(f.__func__, [f.__self__] + list(args), kwargs)
        if isinstance(f, (staticmethod, classmethod)):
            raise Unsupported('descriptor call')
        # SymDict methods
        if isinstance(f, types.FunctionType) and f.__module__ in self.interp_modules:
            return self.call_interp(f, args, kwargs)
        if any(is_sym(a) for a in args) or any(is_sym(v) for v in kwargs.values()):
            return self.call_model(f, args, kwargs)
        # class instantiation of repo classes etc.: native (no symbolic args)
        try:
            return f(*args, **kwargs)
        except PyRaise:
            raise
        except Exception as e:  # native exception becomes interpreted exception
            raise PyRaise(e)

    def call_model(self, f, args, kwargs):
        if f is isinstance:
            v, t = args
            if isinstance(v, SymInt): return issubclass(int, t) if isinstance(t, type) else any(issubclass(int, x) for x in t)
            if isinstance(v, SymBool): return issubclass(bool, t) if isinstance(t, type) else any(issubclass(bool, x) for x in t)
        if f is type:
            if isinstance(args[0], SymInt): return int
        if f is len: raise Unsupported('len of symbolic')
        name = getattr(f, '__name__', repr(f))
        raise Unsupported('no model for %s with symbolic args' % name)

    def call_interp(self, f, args, kwargs):
        tree = self.get_ast(f)
        sig = inspect.signature(f)
        try:
            ba = sig.bind(*args, **kwargs)
        except TypeError as e:
            raise PyRaise(e)
        ba.apply_defaults()
        env = dict(ba.arguments)
        fr = Frame(self, f, env)
        try:
            fr.exec_block(tree.body)
        except _Return as r:
            return r.v
        return None


BINOPS = {ast.Add: operator.add, ast.Sub: operator.sub, ast.Mult: operator.mul, ast.FloorDiv: operator.floordiv,
          ast.Mod: operator.mod, ast.BitOr: operator.or_, ast.BitAnd: operator.and_, ast.LShift: operator.lshift}
CMPOPS = {ast.Eq: operator.eq, ast.NotEq: operator.ne, ast.Lt: operator.lt, ast.LtE: operator.le,
          ast.Gt: operator.gt, ast.GtE: operator.ge}


class Frame:
    def __init__(self, eng, fn, env):
        self.eng = eng; self.fn = fn; self.env = env
        self.globals = fn.__globals__
        self.closure = {}
        if fn.__closure__:
            for n, c in zip(fn.__code__.co_freevars, fn.__closure__):
                self.closure[n] = c.cell_contents

    def lookup(self, name):
        if name in self.env: return self.env[name]
        if name in self.closure: return self.closure[name]
        if name in self.globals: return self.globals[name]
        if hasattr(builtins, name): return getattr(builtins, name)
        raise PyRaise(NameError(name))

    # ---- statements
    def exec_block(self, stmts):
        for s in stmts:
            self.exec_stmt(s)

    def exec_stmt(self, s):
        m = getattr(self, 'st_' + type(s).__name__, None)
        if m is None: raise Unsupported('stmt %s at %s:%d' % (type(s).__name__, self.fn.__qualname__, s.lineno))
        m(s)

    def st_Expr(self, s): self.ev(s.value)
    def st_Pass(self, s): pass
    def st_Return(self, s): raise _Return(self.ev(s.value) if s.value else None)
    def st_Break(self, s): raise _Break()
    def st_Continue(self, s): raise _Continue()

    def st_Assign(self, s):
        v = self.ev(s.value)
        for t in s.targets: self.assign(t, v)

    def st_AugAssign(self, s):
        cur = self.ev(ast.copy_location(ast.fix_missing_locations(_load(s.target)), s.target))
        self.assign(s.target, self.binop(type(s.op), cur, self.ev(s.value)))

    def assign(self, t, v):
        if isinstance(t, ast.Name): self.env[t.id] = v
        elif isinstance(t, (ast.Tuple, ast.List)):
            vals = list(v)
            if len(vals) != len(t.elts): raise PyRaise(ValueError('unpack'))
            for e, x in zip(t.elts, vals): self.assign(e, x)
        elif isinstance(t, ast.Attribute):
            obj = self.ev(t.value)
            object.__setattr__(obj, t.attr, v) if False else setattr(obj, t.attr, v)
        elif isinstance(t, ast.Subscript):
            obj = self.ev(t.value); k = self.ev(t.slice)
            if isinstance(obj, SymDict): obj.setitem(k, v)
            elif isinstance(obj, dict) and is_sym(k): raise Unsupported('native dict with symbolic key at %s:%d' % (self.fn.__qualname__, t.lineno))
            else: obj[k] = v
        else: raise Unsupported('assign target %s' % type(t).__name__)

    def st_If(self, s):
        if self.eng.truth(self.ev(s.test)): self.exec_block(s.body)
        else: self.exec_block(s.orelse)

    def st_While(self, s):
        n = 0
        while self.eng.truth(self.ev(s.test)):
            n += 1
            if n > 10000: raise Unsupported('loop bound')
            try: self.exec_block(s.body)
            except _Break: break
            except _Continue: continue
        else:
            self.exec_block(s.orelse)

    def st_For(self, s):
        it = self.ev(s.iter)
        if isinstance(it, SymDict): it = it.keys()
        for x in list(it):
            self.assign(s.target, x)
            try: self.exec_block(s.body)
            except _Break: break
            except _Continue: continue
        else:
            self.exec_block(s.orelse)

    def st_Raise(self, s):
        if s.exc is None: raise Unsupported('bare raise')
        e = self.ev(s.exc)
        if isinstance(e, type): e = e()
        raise PyRaise(e)

    def st_Try(self, s):
        try:
            try:
                self.exec_block(s.body)
            except PyRaise as pr:
                for h in s.handlers:
                    if h.type is None or isinstance(pr.exc, self.ev(h.type)):
                        if h.name: self.env[h.name] = pr.exc
                        self.exec_block(h.body)
                        break
                else:
                    raise
            else:
                self.exec_block(s.orelse)
        finally:
            self.exec_block(s.finalbody)

    def st_Assert(self, s):
        if not self.eng.truth(self.ev(s.test)):
            raise PyRaise(AssertionError())

    def st_Delete(self, s):
        for t in s.targets:
            if isinstance(t, ast.Subscript):
                obj = self.ev(t.value); k = self.ev(t.slice)
                del obj[k]
            else: raise Unsupported('del')

    # ---- expressions
    def ev(self, e):
        m = getattr(self, 'ex_' + type(e).__name__, None)
        if m is None: raise Unsupported('expr %s at %s:%d' % (type(e).__name__, self.fn.__qualname__, e.lineno))
        return m(e)

    def ex_Constant(self, e): return e.value
    def ex_Name(self, e): return self.lookup(e.id)
    def ex_Tuple(self, e): return tuple(self.ev(x) for x in e.elts)
    def ex_List(self, e): return [self.ev(x) for x in e.elts]
    def ex_Dict(self, e):
        if not e.keys: return SymDict(self.eng)
        return {self.ev(k): self.ev(v) for k, v in zip(e.keys, e.values)}
    def ex_JoinedStr(self, e):
        out = []
        for v in e.values:
            if isinstance(v, ast.Constant): out.append(v.value)
            else:
                x = self.ev(v.value)
                if is_sym(x): out.append('<sym>')
                else:
                    spec = self.ev(v.format_spec) if v.format_spec else ''
                    conv = {115: str, 114: repr, 97: ascii}.get(v.conversion)
                    out.append(format(conv(x) if conv else x, spec))
        return ''.join(out)
    def ex_Attribute(self, e):
        obj = self.ev(e.value)
        if is_sym(obj): raise Unsupported('attr %s of symbolic' % e.attr)
        try: return getattr(obj, e.attr)
        except AttributeError as ex: raise PyRaise(ex)
    def ex_Subscript(self, e):
        obj = self.ev(e.value); k = self.ev(e.slice)
        if isinstance(obj, SymDict): return obj.getitem(k)
        if is_sym(k): raise Unsupported('symbolic index at %s:%d' % (self.fn.__qualname__, e.lineno))
        try: return obj[k]
        except (KeyError, IndexError, TypeError) as ex: raise PyRaise(ex)
    def ex_Slice(self, e):
        return slice(self.ev(e.lower) if e.lower else None, self.ev(e.upper) if e.upper else None, self.ev(e.step) if e.step else None)
    def ex_IfExp(self, e):
        return self.ev(e.body) if self.eng.truth(self.ev(e.test)) else self.ev(e.orelse)
    def ex_BoolOp(self, e):
        if isinstance(e.op, ast.And):
            v = True
            for x in e.values:
                v = self.ev(x)
                if not self.eng.truth(v): return v
            return v
        v = False
        for x in e.values:
            v = self.ev(x)
            if self.eng.truth(v): return v
        return v
    def ex_UnaryOp(self, e):
        v = self.ev(e.operand)
        if isinstance(e.op, ast.Not): return not self.eng.truth(v)
        if isinstance(e.op, ast.USub): return SymInt(-zint(v)) if is_sym(v) else -v
        raise Unsupported('unary')
    def binop(self, op, a, b):
        if is_sym(a) or is_sym(b):
            if op is ast.Add: return SymInt(zint(a) + zint(b))
            if op is ast.Sub: return SymInt(zint(a) - zint(b))
            if op is ast.Mult and not (is_sym(a) and is_sym(b)): return SymInt(zint(a) * zint(b))
            raise Unsupported('binop %s on symbolic' % op.__name__)
        try: return BINOPS[op](a, b)
        except KeyError: raise Unsupported('binop %s' % op.__name__)
        except Exception as ex: raise PyRaise(ex)
    def ex_BinOp(self, e): return self.binop(type(e.op), self.ev(e.left), self.ev(e.right))
    def ex_Compare(self, e):
        left = self.ev(e.left)
        res = True
        for op, rn in zip(e.ops, e.comparators):
            right = self.ev(rn)
            r = self.cmp(type(op), left, right)
            if not self.eng.truth(r): return False
            left = right
        return True
    def cmp(self, op, a, b):
        if op is ast.Is: return a is b
        if op is ast.IsNot: return a is not b
        if op in (ast.In, ast.NotIn):
            if isinstance(b, SymDict):
                found = any(self.eng.truth(self.eng.eq(a, k)) for k in b.keys())
            else:
                if is_sym(a): found = any(self.eng.truth(self.eng.eq(a, k)) for k in b)
                else: found = a in b
            return found if op is ast.In else not found
        if is_sym(a) or is_sym(b):
            if op is ast.Eq: return self.eng.eq(a, b)
            if op is ast.NotEq:
                r = self.eng.eq(a, b); return SymBool(z3.Not(r.t)) if isinstance(r, SymBool) else (not r)
            za, zb = zint(a), zint(b)
            return SymBool({ast.Lt: za < zb, ast.LtE: za <= zb, ast.Gt: za > zb, ast.GtE: za >= zb}[op])
        try: return CMPOPS[op](a, b)
        except Exception as ex: raise PyRaise(ex)
    def ex_Call(self, e):
        # method call on SymDict / list helpers
        if isinstance(e.func, ast.Attribute):
            obj = self.ev(e.func.value)
            args = [self.ev(a) for a in e.args]
            kwargs = {k.arg: self.ev(k.value) for k in e.keywords}
            if isinstance(obj, list) and e.func.attr == 'append':
                obj.append(args[0]); return None
            if isinstance(obj, list) and e.func.attr == 'extend':
                obj.extend(args[0]); return None
            if is_sym(obj): raise Unsupported('method %s on symbolic' % e.func.attr)
            try: f = getattr(obj, e.func.attr)
            except AttributeError as ex: raise PyRaise(ex)
            return self.eng.call(f, args, kwargs)
        f = self.ev(e.func)
        args = []
        for a in e.args:
            if isinstance(a, ast.Starred): args.extend(self.ev(a.value))
            else: args.append(self.ev(a))
        kwargs = {}
        for k in e.keywords:
            if k.arg is None: kwargs.update(self.ev(k.value))
            else: kwargs[k.arg] = self.ev(k.value)
        return self.eng.call(f, args, kwargs)
    def ex_ListComp(self, e):
        if len(e.generators) != 1: raise Unsupported('listcomp')
        g = e.generators[0]; out = []
        for x in list(self.ev(g.iter)):
            self.assign(g.target, x)
            if all(self.eng.truth(self.ev(c)) for c in g.ifs): out.append(self.ev(e.elt))
        return out


def _load(t):
    import copy
    t2 = copy.deepcopy(t); t2.ctx = ast.Load(); return t2
