"""Known findings: /verif/known_findings.json (committed, never written at run time).

Each entry: {property, harness ("module:function"), when (python predicate over the
harness arguments delimiting the failing input class), symptom, witness (dict of
arguments), description, status ("open" | "fixed:<commit>")}.

Harness functions call ``skip(harness_id, **args)`` first; for *open* entries whose
predicate holds the path is skipped (equivalent to ``pre: not when``), so the solver
searches everywhere else.  Fixed entries suppress nothing.
"""
import json
import os

_PATH = os.path.join(os.path.dirname(os.path.dirname(os.path.abspath(__file__))),
                     'known_findings.json')
try:
    with open(_PATH) as _f:
        ENTRIES = json.load(_f)['findings']
except FileNotFoundError:
    ENTRIES = []
_DISABLED = os.environ.get('VERIF_NO_KF') == '1'

import fnmatch as _fn

_OPEN = []
for _e in ENTRIES:
    if _e.get('status', 'open') == 'open':
        _OPEN.append((_e.get('applies_to') or [_e['harness']],
                      compile(_e['when'], '<known_findings:%s>' % _e.get('id', '?'), 'eval')))
_CACHE = {}


def _codes(harness_id):
    if harness_id not in _CACHE:
        _CACHE[harness_id] = [c for pats, c in _OPEN if any(_fn.fnmatchcase(harness_id, p) for p in pats)]
    return _CACHE[harness_id]


def skip(harness_id, **facts):
    """True if the arguments/facts fall into the input class of an open known finding
    (`when` is a Python predicate over the harness arguments or over input-class facts
    the harness computes, e.g. attr_ws = "some attribute-carried string holds TAB/CR/LF")."""
    if _DISABLED:
        return False
    for code in _codes(harness_id):
        try:
            hit = eval(code, {'__builtins__': __builtins__}, facts)  # may fork under CrossHair
        except NameError:
            hit = False          # predicate talks about facts this call site does not provide
        if hit:
            return True
    return False


def open_entries(prop=None):
    return [e for e in ENTRIES if e.get('status', 'open') == 'open'
            and (prop is None or e['property'] == prop)]
