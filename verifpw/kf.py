"""Known findings: /verif/known_findings.json (committed, never written at run time).

Each entry: {property, harness ("module:function"), when (python predicate over the
harness arguments delimiting the failing input class), symptom, witness (dict of
arguments), description, status ("open" | "fixed:<commit>")}.

Harness functions call ``skip(harness_id, **args)`` first; for *open* entries whose
predicate holds the path is skipped (equivalent to ``pre: not when``), so the solver
searches everywhere else.  Fixed entries suppress nothing.
"""
import json
import os

_PATH = os.path.join(os.path.dirname(os.path.dirname(os.path.abspath(__file__))),
                     'known_findings.json')
try:
    with open(_PATH) as _f:
        ENTRIES = json.load(_f)['findings']
except FileNotFoundError:
    ENTRIES = []
_DISABLED = os.environ.get('VERIF_NO_KF') == '1'

_BY_HARNESS = {}
for _e in ENTRIES:
    if _e.get('status', 'open') == 'open':
        _BY_HARNESS.setdefault(_e['harness'], []).append(
            compile(_e['when'], '<known_findings:%s>' % _e.get('id', '?'), 'eval'))


def skip(harness_id, **args):
    """True if the arguments fall into the input class of an open known finding."""
    if _DISABLED:
        return False
    for code in _BY_HARNESS.get(harness_id, ()):
        if eval(code, {'__builtins__': __builtins__}, args):  # may fork under CrossHair
            return True
    return False


def open_entries(prop=None):
    return [e for e in ENTRIES if e.get('status', 'open') == 'open'
            and (prop is None or e['property'] == prop)]
