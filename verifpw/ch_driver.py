"""Run CrossHair on one harness function and print a JSON result (engine E1).

usage: python -m verifpw.ch_driver <module> <function> --timeout T [--per-path P]

The harness module is imported from /verif/harness (it imports /repo's current
modules, so the analysis is regenerated from the working tree on every run).
Result: {"status": CONFIRMED|UNKNOWN|REFUTED|PRE_UNSAT|ERROR, "messages": [...],
"paths": n, "confirmed_paths": n, "wall_s": s, "cex": {...}|null}
"""
import argparse
import importlib
import json
import os
import re
import sys
import time
import traceback

HERE = os.path.dirname(os.path.dirname(os.path.abspath(__file__)))
sys.path.insert(0, os.path.join(HERE, 'harness'))
sys.path.insert(0, HERE)
if '/repo' not in sys.path:
    sys.path.insert(0, '/repo')


def parse_call(message, fname, fn=None):
    """Extract keyword arguments from 'when calling f(a=1, b="x")...'."""
    m = re.search(r'when calling %s\((.*)' % re.escape(fname), message, re.S)
    if not m:
        return None
    rest = m.group(1)
    # find the matching close paren
    depth = 1
    i = 0
    instr = None
    while i < len(rest):
        c = rest[i]
        if instr:
            if c == '\\':
                i += 1
            elif c == instr:
                instr = None
        elif c in '"\'':
            instr = c
        elif c in '([{':
            depth += 1
        elif c in ')]}':
            depth -= 1
            if depth == 0:
                break
        i += 1
    argsrc = rest[:i]
    try:
        import collections  # noqa: F401  (eval-friendly reprs may name it)
        pos, kw = eval('_cap(%s)' % argsrc, {'collections': collections, 'float': float,
                                             '_cap': lambda *a, **k: (a, k)})
        if fn is not None:
            import inspect
            ba = inspect.signature(fn).bind(*pos, **kw)
            return dict(ba.arguments)
        return dict(kw, **{'arg%d' % i: v for i, v in enumerate(pos)})
    except Exception:
        return {'__unparsed__': argsrc}


def main():
    ap = argparse.ArgumentParser()
    ap.add_argument('module')
    ap.add_argument('function')
    ap.add_argument('--timeout', type=float, default=30.0)
    ap.add_argument('--per-path', type=float, default=None)
    ap.add_argument('--max-iter', type=int, default=None)
    a = ap.parse_args()
    t0 = time.time()
    out = {'module': a.module, 'function': a.function, 'part': os.environ.get('VERIF_PART', '0/1'),
           'status': 'ERROR', 'messages': [], 'paths': 0, 'confirmed_paths': 0, 'cex': None}
    try:
        import warnings
        warnings.simplefilter('ignore')
        import verifpw.chfix  # noqa: F401
        import crosshair.core as chc
        from crosshair.core_and_libs import analyze_function, run_checkables
        from crosshair.options import AnalysisOptionSet
        from crosshair.statespace import MessageType, VerificationStatus

        stats = {}
        orig = chc.analyze_calltree

        def wrapped(options, conditions):
            r = orig(options, conditions)
            stats['paths'] = (options.stats or {}).get('num_paths', 0) if options.stats else 0
            stats['confirmed_paths'] = r.num_confirmed_paths
            stats['status'] = r.verification_status.name
            return r
        chc.analyze_calltree = wrapped

        mod = importlib.import_module(a.module)
        fn = getattr(mod, a.function)
        kw = dict(per_condition_timeout=a.timeout, report_all=True,
                  max_uninteresting_iterations=sys.maxsize)
        if a.per_path is not None:
            kw['per_path_timeout'] = a.per_path
        if a.max_iter is not None:
            kw['max_iterations'] = a.max_iter
        opts = AnalysisOptionSet(**kw)
        checkables = analyze_function(fn, opts)
        if not checkables:
            out['status'] = 'ERROR'
            out['messages'].append({'state': 'no_conditions', 'message': 'no contract found'})
        else:
            import collections
            for c in checkables:
                if hasattr(c, 'options'):
                    c.options.stats = collections.Counter()
            msgs = run_checkables(checkables)
            for m in msgs:
                out['messages'].append({'state': m.state.value, 'message': m.message,
                                        'line': m.line, 'traceback': (m.traceback or '')[-1500:]})
            out['paths'] = stats.get('paths', 0)
            out['confirmed_paths'] = stats.get('confirmed_paths', 0)
            states = {m.state for m in msgs}
            bad = states & {MessageType.POST_FAIL, MessageType.POST_ERR, MessageType.EXEC_ERR}
            if MessageType.SYNTAX_ERR in states or MessageType.IMPORT_ERR in states:
                out['status'] = 'ERROR'
            elif bad:
                out['status'] = 'REFUTED'
                for m in msgs:
                    if m.state in bad:
                        out['cex'] = {'args': parse_call(m.message, a.function, fn),
                                      'message': m.message, 'state': m.state.value}
                        break
            elif MessageType.PRE_UNSAT in states:
                out['status'] = 'PRE_UNSAT'
            elif states == {MessageType.CONFIRMED}:
                out['status'] = 'CONFIRMED'
            else:
                out['status'] = 'UNKNOWN'
    except BaseException as e:  # noqa
        out['status'] = 'ERROR'
        out['messages'].append({'state': 'driver_exception', 'message': repr(e),
                                'traceback': traceback.format_exc()[-3000:]})
    out['wall_s'] = round(time.time() - t0, 2)
    sys.stdout.write('\n@@RESULT@@' + json.dumps(out, default=repr) + '\n')
    sys.stdout.flush()
    os._exit(0)


if __name__ == '__main__':
    main()
