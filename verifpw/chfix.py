"""Remove CrossHair's own contracts on the builtins hash()/repr().

CrossHair 0.0.110 patches hash/repr with functions carrying `post[]:` contracts; calls
from traced code may then be short-circuited to a free symbolic return value, which
ends paths UNKNOWN.  We re-register contract-free versions (same bodies).  This only
disables an optimisation (DESIGN.md section 2, consequence 6).
"""
import crosshair.core as _chc
import crosshair.libimpl.builtinslib as _chb
from crosshair.tracers import NoTracing as _NoTracing
from crosshair.util import is_hashable as _is_hashable


def _plain_hash(obj):
    with _NoTracing():
        if not _is_hashable(obj):
            return hash(obj)
    return _chb.invoke_dunder(obj, "__hash__")


def _plain_repr(obj):
    return _chb.invoke_dunder(obj, "__repr__")


_chc._PATCH_REGISTRATIONS[hash] = _plain_hash
_chc._PATCH_REGISTRATIONS[repr] = _plain_repr
