"""Shared C18 plumbing on the real mock server (public API only): server construction from a
minimal interop MOF with the mock subscription providers, and the native replay of the E2
ownership counterexamples."""
import warnings
import pywbem
from pywbem import WBEMServer, WBEMSubscriptionManager
from pywbem_mock import FakedWBEMConnection

INTEROP = 'interop'
MOF = '''
Qualifier Association : boolean = false, Scope(association), Flavor(DisableOverride, ToSubclass);
Qualifier Key : boolean = false, Scope(property, reference), Flavor(DisableOverride, ToSubclass);
class CIM_ObjectManager { [Key] string SystemCreationClassName; [Key] string SystemName; [Key] string CreationClassName; [Key] string Name;
  string ElementName; string Description; };
class CIM_IndicationFilter { [Key] string SystemCreationClassName; [Key] string SystemName; [Key] string CreationClassName; [Key] string Name;
  string SourceNamespace; string SourceNamespaces[]; boolean IndividualSubscriptionSupported; string Query; string QueryLanguage; string Description; };
class CIM_ListenerDestinationCIMXML { [Key] string SystemCreationClassName; [Key] string SystemName; [Key] string CreationClassName; [Key] string Name;
  uint16 PersistenceType; string OtherPersistenceType; string Destination; uint16 Protocol; string Description; };
[Association] class CIM_IndicationSubscription { [Key] CIM_IndicationFilter REF Filter; [Key] CIM_ListenerDestinationCIMXML REF Handler;
  uint16 OnFatalErrorPolicy; uint16 RepeatNotificationPolicy; uint16 SubscriptionState; datetime SubscriptionStartTime;
  datetime TimeOfLastStateChange; uint64 SubscriptionDuration; uint64 SubscriptionTimeRemaining; string SubscriptionInfo; string Description; };
instance of CIM_ObjectManager { SystemCreationClassName = "CIM_ComputerSystem"; SystemName = "MockSystem"; CreationClassName = "CIM_ObjectManager";
  Name = "FakeObjectManager"; ElementName = "Mock"; Description = "mock"; };
'''


def make_server():
    conn = FakedWBEMConnection(default_namespace=INTEROP)
    conn.compile_mof_string(MOF, namespace=INTEROP)
    conn.install_subscription_providers(INTEROP)
    return WBEMServer(conn)


def foreign_claim(a, b, kind, obj_id):
    """Manager b creates an owned filter/destination with id obj_id; a fresh manager a on the
    same server must not own it.  Returns (reproduced, detail)."""
    warnings.simplefilter('ignore')
    if a == b:
        return False, 'same id'
    server = make_server()
    mb = WBEMSubscriptionManager(subscription_manager_id=b)
    sid = mb.add_server(server)
    try:
        if kind == 'filter':
            inst = mb.add_filter(sid, 'root/x', 'SELECT * FROM CIM_Indication', owned=True, filter_id=obj_id)
        else:
            inst = mb.add_destination(sid, 'http://lst:5000', owned=True, destination_id=obj_id)
    except (ValueError, TypeError, pywbem.Error) as e:
        return False, 'manager %r could not create the %s: %s' % (b, kind, e)
    ma = WBEMSubscriptionManager(subscription_manager_id=a)
    sid2 = ma.add_server(server)
    owned = ma.get_owned_filters(sid2) if kind == 'filter' else ma.get_owned_destinations(sid2)
    claimed = [i.path for i in owned if i.path == inst.path]
    if claimed:
        ma.remove_server(sid2)
        left = server.conn.EnumerateInstanceNames(inst.classname, namespace=INTEROP)
        gone = inst.path not in [p for p in left]
        return True, 'manager %r lists the %s %r of manager %r as owned%s' % (a, kind, inst['Name'], b, ' and deleted it on remove_server()' if gone else '')
    return False, 'not claimed'
