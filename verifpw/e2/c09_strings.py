"""C09-H1 / C08-H1 (E2): the MOF string-literal decoder for ALL string tokens up to length L.

_fixStringValue (current source) is interpreted on every string that the lexer's own
stringValue token pattern accepts (precondition decided by the regex contract):
  * C09: it returns or raises MOFParseError - nothing else (no IndexError ...),
  * C08: the result equals the DSP0004 decoding (reference in verifpw/e2/refs.py).
"""
import os
import re
import z3
from verifpw import kf
from verifpw.e2 import refs, diff
from verifpw.astz3 import regex as rx
from verifpw.astz3.core import PyRaise
import pywbem
import pywbem._mof_compiler as mc
from pywbem import MOFCompileError

HID = 'verifpw.e2.c09_strings:literal'
NONASCII = [0xE9, 0x4E2D, 0x1F600]
TOKEN = re.compile(mc.stringvalue_re)


def alphabet(c):
    return z3.Or(z3.And(c >= 1, c <= 127), *[c == x for x in NONASCII])


def hexalpha(c):
    # hex digits, a non-hex letter, a digit-like punctuation, backslash, quote-free ASCII sample and one non-ASCII
    return z3.Or(z3.And(c >= 48, c <= 57), z3.And(c >= 65, c <= 71), z3.And(c >= 97, c <= 102), c == 32)


def _skip(eng, s):
    m = rx.run(eng, TOKEN, s, 'fullmatch')
    if m is None:
        return True                      # not a stringValue token: outside the domain of the function
    return diff.kf_skip(eng, HID, {'s': s})


def impl(s):
    return mc._fixStringValue(s, None)


def literal(deadline, part, nparts):
    L = 5 if os.environ.get('VERIF_TIER', 'quick') == 'quick' else 7      # total token length incl. the two quotes
    lengths = [n for n in range(2, L + 1) if n % nparts == part]
    stats = None
    allc = []
    exh = True
    for n in lengths:
        ex, cexs, stats = diff.run_diff(impl_fn, refs.ref_mof_string_decode, {'pywbem._mof_compiler', 'verifpw.e2.refs'}, [n], alphabet, deadline,
                                        skip=_skip, name='token', stats=stats, allowed_exc=(MOFCompileError,), nonascii=NONASCII)
        exh = exh and ex
        allc += cexs
        if cexs:
            break
    # focused kernel: a hex escape followed by up to K symbolic characters (covers the 1..4 digit boundary)
    K = 5 if os.environ.get('VERIF_TIER', 'quick') == 'quick' else 6
    if not allc and (0 % nparts == part or nparts == 1):
        for k in range(1, K + 1):
            ex, cexs, stats = diff.run_diff(impl_fn, refs.ref_mof_string_decode, {'pywbem._mof_compiler', 'verifpw.e2.refs'}, [k], hexalpha, deadline,
                                            skip=_skip, name='token', stats=stats, allowed_exc=(MOFCompileError,), nonascii=NONASCII,
                                            prefix='"\\x', suffix='"')
            exh = exh and ex
            allc += cexs
            if cexs:
                break
    return diff.result(exh, allc, stats, {'hex_escape_kernel': 'tokens "\\x" + 1..%d symbolic characters + closing quote' % K, 'bounds': 'all string tokens (matching the lexer pattern %r) of total length %s over ASCII plus %s' % (
        mc.stringvalue_re, lengths, [hex(x) for x in NONASCII]), 'contracts': ['re fullmatch (token pattern)', 'str.upper/isdigit', 'chr', 'x << k, x | y on disjoint bit ranges']})


def impl_fn(s):
    return mc._fixStringValue(s, None)


impl_fn.__module__ = 'pywbem._mof_compiler'


def literal_reach(deadline, part, nparts):
    ex, cexs, st = diff.run_diff(impl_fn, refs.ref_mof_string_decode, {'pywbem._mof_compiler', 'verifpw.e2.refs'}, [4], alphabet, deadline,
                                 skip=lambda eng, s: rx.run(eng, TOKEN, s, 'fullmatch') is None, name='token', allowed_exc=(MOFCompileError,), nonascii=NONASCII)
    ok = st['outcomes'].get('return:value', 0) > 0
    return {'status': 'UNKNOWN', 'paths': st['paths'], 'queries': st['queries'],
            'cexs': [{'args': {'outcomes': st['outcomes']}, 'message': 'reachable'}] if ok else []}


def replay_literal(token):
    """Native replay through the public compiler: the literal as a qualifier value."""
    import warnings
    warnings.simplefilter('ignore')
    from pywbem import MOFCompiler
    from pywbem._mof_compiler import MOFWBEMConnection
    want = refs.ref_mof_string_decode(token)
    mof = 'Qualifier Description : string = null, Scope(any);\n[Description(%s)] class C { };\n' % token
    conn = MOFWBEMConnection()
    comp = MOFCompiler(conn, log_func=None)
    try:
        comp.compile_string(mof, 'root/x')
    except MOFCompileError as e:
        return True, 'the lexer accepts the token %r but the compiler raised %s' % (token, type(e).__name__) if re.fullmatch(mc.stringvalue_re, token) else (False, 'not a token')
    except Exception as e:
        return True, '%s escaped from compile_string for literal %r' % (type(e).__name__, token)
    got = conn.classes['root/x']['C'].qualifiers['Description'].value
    return (got != want), 'literal %r compiled to %r, DSP0004 denotes %r' % (token, got, want)


if __name__ == '__main__':
    from verifpw.e2main import main
    main({'literal': literal, 'literal_reach': literal_reach})
