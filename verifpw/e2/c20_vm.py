"""C20-H1 (E2): ValueMap range resolution for ALL integers.

The real ValueMapping._create_for_element / _values_tuple / tovalues / _tovalues_single /
tobinary are interpreted symbolically from the current source.  A ValueMap of N entries is
built for every tuple of entry shapes (k | lo..hi | lo.. | ..hi | ..); the integers inside
the entries and the element value v are unbounded symbolic ints constrained to the type's
DSP0004 range (the oracle uses the DSP0004 limits; the code uses cimtype.minvalue/maxvalue).

Stubs/contracts: ValueMapping._to_int -> hands out the symbolic integer of the token
(the notations are H3's subject); _format -> constant; {} literals -> association lists.
"""
import itertools
import sys
import time
import z3
from verifpw.astz3 import Engine, SymInt, PyRaise, Unsupported
from verifpw import kf
import pywbem
from pywbem import CIMProperty, CIMQualifier, ModelError
import pywbem._valuemapping as vmod
from pywbem._valuemapping import ValueMapping as VM

SHAPES = ['A', 'A..B', 'A..', '..B', '..']
LIMITS = {'uint8': (0, 2**8 - 1), 'sint8': (-2**7, 2**7 - 1), 'uint16': (0, 2**16 - 1), 'sint16': (-2**15, 2**15 - 1),
          'uint32': (0, 2**32 - 1), 'sint32': (-2**31, 2**31 - 1), 'uint64': (0, 2**64 - 1), 'sint64': (-2**63, 2**63 - 1)}
HID = 'verifpw.e2.c20_vm:ranges'


def _stub_to_int(eng, self, s):
    if s in eng.tok:
        return eng.tok[s]
    raise PyRaise(ModelError('bad int %r' % s))


def _stub_format(eng, *a, **k):
    return 'msg'


def _vmap(shapes):
    return [SHAPES[s].replace('A', 'A%d' % i).replace('B', 'B%d' % i) for i, s in enumerate(shapes)]


def malformed(shapes):
    """Adjacent entries whose facing ends are both open (or an open end facing the unclaimed
    marker): DSP0004 gives the open end no value -> the pair is malformed (ModelError/ValueError expected)."""
    n = len(shapes)
    for i, s in enumerate(shapes):
        sh = SHAPES[s]
        if sh in ('..B',) and i > 0 and SHAPES[shapes[i - 1]] in ('A..', '..'):
            return True
        if sh in ('A..',) and i < n - 1 and SHAPES[shapes[i + 1]] in ('..B', '..'):
            return True
    return False


def check_shapes(typ, shapes, deadline, stats, cexs, empty_first=False):
    n = len(shapes)
    tmin, tmax = LIMITS[typ]
    vmap = _vmap(shapes)
    vals = ['v%d' % i for i in range(n)]
    if empty_first:
        vals[0] = ''            # Values strings are arbitrary strings, the empty string included
    prop = CIMProperty('P', None, type=typ, qualifiers=[CIMQualifier('ValueMap', vmap, type='string'),
                                                         CIMQualifier('Values', vals, type='string')])
    eng = Engine({'pywbem._valuemapping', 'pywbem._cim_types'},
                 stubs={VM._to_int: _stub_to_int, vmod._format: _stub_format})
    A = [z3.Int('A%d' % i) for i in range(n)]
    B = [z3.Int('B%d' % i) for i in range(n)]
    v = z3.Int('v')
    eng.tok = {}
    for i in range(n):
        eng.tok['A%d' % i] = SymInt(A[i])
        eng.tok['B%d' % i] = SymInt(B[i])
    pre = [tmin <= v, v <= tmax] + [z3.And(tmin <= a, a <= tmax) for a in A + B]
    # closed ranges are written lo <= hi (DSP0004 range syntax)
    for i, s in enumerate(shapes):
        if SHAPES[s] == 'A..B':
            pre.append(A[i] <= B[i])
    bad_shape = malformed(shapes)

    def thunk():
        eng.solver.add(*pre)
        vm = eng.call(VM._create_for_element.__func__, [VM, prop, None, 'ns', 'C', 'P', None, None, None], {})
        return vm, eng.call(VM.tovalues, [vm, SymInt(v)], {})

    def bounds(i):
        sh = SHAPES[shapes[i]]
        if sh == 'A':
            return A[i], A[i], 'exact'
        if sh == '..':
            return None, None, 'unclaimed'
        return (A[i] if sh in ('A..B', 'A..') else None), (B[i] if sh in ('A..B', '..B') else None), 'range'

    def resolved(i):
        lo, hi, kind = bounds(i)
        if kind != 'range':
            return lo, hi, kind
        if lo is None:
            lo = z3.IntVal(tmin) if i == 0 else bounds(i - 1)[1] + 1
        if hi is None:
            hi = z3.IntVal(tmax) if i == n - 1 else bounds(i + 1)[0] - 1
        return lo, hi, kind

    R = None if bad_shape else [resolved(i) for i in range(n)]

    def model_args(m):
        d = {'type': typ, 'valuemap_shapes': vmap, 'empty_first': empty_first, 'v': m.eval(v, model_completion=True).as_long()}
        for i in range(n):
            d['A%d' % i] = m.eval(A[i], model_completion=True).as_long()
            d['B%d' % i] = m.eval(B[i], model_completion=True).as_long()
        return d

    def report(msg, cond):
        st, m = eng.model_if_sat(cond)
        if st == z3.sat:
            cexs.append({'args': model_args(m), 'message': msg})
        elif st != z3.unsat:
            stats['unknown'] = stats.get('unknown', 0) + 1

    def on_path(out, eng):
        kind, val = out
        key = kind + ':' + (type(val).__name__ if kind == 'raise' else 'value')
        stats['outcomes'][key] = stats['outcomes'].get(key, 0) + 1
        if kind == 'raise':
            if isinstance(val, (ValueError, ModelError)):
                if bad_shape:
                    return
                if isinstance(val, ModelError):
                    report('ModelError for a well-formed ValueMap', z3.BoolVal(True))
                    return
                claims = [z3.And(r[0] <= v, v <= r[1]) for r in R if r[2] != 'unclaimed']
                if any(r[2] == 'unclaimed' for r in R):
                    claims.append(z3.BoolVal(True))
                report('ValueError although an entry claims v', z3.Or(*claims) if claims else z3.BoolVal(False))
                return
            report('escaped %s' % type(val).__name__, z3.BoolVal(True))
            return
        vm, res = val
        if bad_shape:
            return     # property demands ModelError/ValueError "never anything else"; a tolerant result is not excluded by the text
        i = vals.index(res)
        lo, hi, k = R[i]
        exact = [j for j in range(n) if R[j][2] == 'exact']
        others = [z3.And(R[j][0] <= v, v <= R[j][1]) for j in range(n) if R[j][2] != 'unclaimed']
        if k == 'unclaimed':
            bad = z3.Or(*others) if others else z3.BoolVal(False)
        else:
            notclaim = z3.Not(z3.And(lo <= v, v <= hi))
            # exact entries (incl. ranges that resolve to one value) have priority over proper ranges
            single = [z3.And(R[j][0] == R[j][1], R[j][0] == v) for j in range(n) if R[j][2] != 'unclaimed']
            prio = z3.And(lo != hi, z3.Or(*single)) if single else z3.BoolVal(False)
            bad = z3.Or(notclaim, prio)
        report('tovalues(v) returned %s which does not claim v under DSP0004' % res, bad)
        # tobinary(tovalues(v)) contains v (when Values strings are distinct, as here)
        try:
            back = eng.call(VM.tobinary, [vm, res], {})
        except PyRaise as e:
            report('tobinary(tovalues(v)) raised %s' % type(e.exc).__name__, z3.BoolVal(True))
            return
        from verifpw.astz3.core import zint
        if back is None:
            if k != 'unclaimed':
                report('tobinary gave None for a claimed entry', z3.BoolVal(True))
        elif isinstance(back, tuple):
            report('tobinary range does not contain v', z3.Not(z3.And(zint(back[0]) <= v, v <= zint(back[1]))))
        else:
            report('tobinary value != v', zint(back) != v)

    try:
        done = eng.explore(thunk, on_path, deadline)
    except RecursionError:
        done = True
        cexs.append({'args': {'type': typ, 'valuemap_shapes': vmap, 'empty_first': empty_first, 'v': 0,
                              **{'A%d' % i: 1 for i in range(n)}, **{'B%d' % i: 5 for i in range(n)}},
                     'message': 'RecursionError (unbounded recursion between adjacent open ranges)'})
    stats['paths'] += eng.paths
    stats['completed'] += getattr(eng, 'completed', 0)
    stats['queries'] += eng.queries
    stats['funcs'] |= eng.funcs_seen
    return done


def ranges(deadline, part, nparts):
    import os
    tier = os.environ.get('VERIF_TIER', 'quick')
    plan = [('uint8', 3), ('sint8', 2), ('uint16', 2), ('sint64', 2)] if tier == 'quick' else \
           [('uint8', 4)] + [(t, 3) for t in LIMITS if t != 'uint8']
    stats = {'paths': 0, 'completed': 0, 'queries': 0, 'outcomes': {}, 'funcs': set(), 'shape_tuples': 0}
    cexs = []
    exhausted = True
    idx = 0
    for typ, nmax in plan:
        for n in range(1, nmax + 1):
            for shapes in itertools.product(range(5), repeat=n):
                idx += 1
                if idx % nparts != part:
                    continue
                if kf.skip(HID, type=typ, shapes=[SHAPES[s] for s in shapes], malformed=malformed(shapes)):
                    continue
                stats['shape_tuples'] += 1
                if not check_shapes(typ, shapes, deadline, stats, cexs, empty_first=(idx // nparts) % 2 == 1):
                    exhausted = False
                if cexs or time.time() > deadline:
                    break
            if cexs or time.time() > deadline:
                break
        if cexs or time.time() > deadline:
            exhausted = exhausted and not (time.time() > deadline)
            break
    return {'status': 'CONFIRMED' if (exhausted and not cexs and not stats.get('unknown')) else 'UNKNOWN',
            'paths': stats['paths'], 'confirmed_paths': stats['completed'], 'queries': stats['queries'], 'cexs': cexs[:3],
            'extra': {'plan': plan, 'shape_tuples': stats['shape_tuples'], 'outcomes': stats['outcomes'],
                      'functions_interpreted': sorted(stats['funcs']), 'solver_unknown': stats.get('unknown', 0)}}


def ranges_reach(deadline, part, nparts):
    """Vacuity twin: the 'returned a Values string' outcome must be reachable."""
    stats = {'paths': 0, 'completed': 0, 'queries': 0, 'outcomes': {}, 'funcs': set()}
    cexs = []
    check_shapes('uint8', (1, 0), deadline, stats, cexs)
    ok = stats['outcomes'].get('return:value', 0) > 0 and stats['outcomes'].get('raise:ValueError', 0) > 0
    return {'status': 'UNKNOWN', 'paths': stats['paths'], 'queries': stats['queries'],
            'cexs': [{'args': {'outcomes': stats['outcomes']}, 'message': 'reachable'}] if ok else []}


def _concrete(args):
    vmap = []
    for i, sh in enumerate(args['valuemap_shapes']):
        vmap.append(sh.replace('A%d' % i, str(args['A%d' % i])).replace('B%d' % i, str(args['B%d' % i])))
    return vmap


def replay_ranges(**args):
    """Native replay against the real ValueMapping through its public constructor."""
    typ = args['type']
    vmap = _concrete(args)
    n = len(vmap)
    vals = ['v%d' % i for i in range(n)]
    if args.get('empty_first'):
        vals[0] = ''
    cls = pywbem.CIMClass('C', properties=[CIMProperty('P', None, type=typ, qualifiers=[
        CIMQualifier('ValueMap', vmap, type='string'), CIMQualifier('Values', vals, type='string')])])

    class conn:                      # for_property() only needs GetClass()
        @staticmethod
        def GetClass(*a, **k):
            return cls
    v = args['v']
    tmin, tmax = LIMITS[typ]
    # reference resolution, concrete
    ents = []
    for s in vmap:
        if s == '..':
            ents.append(('unclaimed', None, None))
        elif '..' in s:
            lo, hi = s.split('..')
            ents.append(('range', int(lo) if lo else None, int(hi) if hi else None))
        else:
            ents.append(('exact', int(s), int(s)))
    try:
        vm = pywbem.ValueMapping.for_property(conn, 'root/cimv2', 'C', 'P')
        res = vm.tovalues(v)
    except (ValueError, ModelError) as e:
        res = e
    except Exception as e:       # anything else violates the property
        return True, 'escaped %s: %s' % (type(e).__name__, e)
    bad_shape = False
    R = []
    for i, (k, lo, hi) in enumerate(ents):
        if k == 'range':
            if lo is None:
                if i == 0:
                    lo = tmin
                elif ents[i - 1][2] is None:
                    bad_shape = True
                else:
                    lo = ents[i - 1][2] + 1
            if hi is None:
                if i == n - 1:
                    hi = tmax
                elif ents[i + 1][1] is None:
                    bad_shape = True
                else:
                    hi = ents[i + 1][1] - 1
        R.append((k, lo, hi))
    if bad_shape:
        return False, 'malformed pair answered with %r' % (res,)
    claim = [i for i, (k, lo, hi) in enumerate(R) if k != 'unclaimed' and lo <= v <= hi]
    singles = [i for i in claim if R[i][1] == R[i][2]]
    uncl = [i for i, r in enumerate(R) if r[0] == 'unclaimed']
    if isinstance(res, Exception):
        if isinstance(res, ModelError):
            return True, 'ModelError for a well-formed ValueMap %r' % vmap
        return (bool(claim or uncl)), 'ValueError for v=%r vmap=%r (claimed by %r)' % (v, vmap, claim or uncl)
    i = vals.index(res)
    if singles:
        ok = i in singles
    elif claim:
        ok = i in claim
    else:
        ok = i in uncl
    if not ok:
        return True, 'tovalues(%r) = %r for ValueMap %r; claiming entries %r' % (v, res, vmap, singles or claim or uncl)
    back = vm.tobinary(res)
    if back is None:
        return (R[i][0] != 'unclaimed'), 'tobinary None'
    if isinstance(back, tuple):
        return (not (back[0] <= v <= back[1])), 'tobinary %r' % (back,)
    return (back != v), 'tobinary %r' % (back,)


if __name__ == '__main__':
    from verifpw.e2main import main
    main({'ranges': ranges, 'ranges_reach': ranges_reach})
