"""C07-H4 (E2): pywbem._utils._realValue_to_float accepts exactly the DSP0004 realValue
grammar (plus INF/-INF/NAN) for ALL strings up to length L, and never lets float() raise."""
import os
import z3
from verifpw.e2 import refs, diff
from verifpw.astz3.contracts import SymReal
import pywbem._utils as u

HID = 'verifpw.e2.c07_realval:realval'
NONASCII = [0xE9, 0x130, 0x131, 0x17F, 0x212A]     # incl. the code points CPython's IGNORECASE folds onto i, s, k


def alphabet(c):
    return z3.Or(z3.And(c >= 1, c <= 127), *[c == x for x in NONASCII])


def impl(s):
    # from_wbem_uri() may answer any text with ValueError, so a ValueError from float() counts as 'rejected'
    try:
        return u._realValue_to_float(s) is not None
    except ValueError:
        return False


impl.__module__ = 'pywbem._utils'


def realval(deadline, part, nparts):
    L = 5 if os.environ.get('VERIF_TIER', 'quick') == 'quick' else 7
    lengths = [n for n in range(0, L + 1) if n % nparts == part]
    ex, cexs, st = diff.run_diff(impl, refs.ref_is_real_value, {'pywbem._utils', 'verifpw.e2.refs'}, lengths, alphabet, deadline,
                                 skip=lambda eng, s: diff.kf_skip(eng, HID, {'s': s}), name='s', nonascii=NONASCII)
    return diff.result(ex, cexs, st, {'bounds': 'all strings of length %s over ASCII plus %s' % (lengths, [hex(x) for x in NONASCII]),
                                      'contracts': ['re.Pattern.match (IGNORECASE/UNICODE tables of this interpreter)', 'float(str) grammar contract']})


def realval_reach(deadline, part, nparts):
    ex, cexs, st = diff.run_diff(impl, refs.ref_is_real_value, {'pywbem._utils', 'verifpw.e2.refs'}, [3], alphabet, deadline, name='s', nonascii=NONASCII)
    ok = st['outcomes'].get('return:value', 0) > 1
    return {'status': 'UNKNOWN', 'paths': st['paths'], 'queries': st['queries'],
            'cexs': [{'args': {'outcomes': st['outcomes']}, 'message': 'reachable'}] if ok else []}


def replay_realval(s):
    try:
        got = impl(s)
    except Exception as e:
        return True, '_realValue_to_float(%r) raised %s' % (s, type(e).__name__)
    want = refs.ref_is_real_value(s)
    return (got != want), '_realValue_to_float(%r) %s, DSP0004 realValue: %s' % (s, 'accepts' if got else 'rejects', want)


if __name__ == '__main__':
    from verifpw.e2main import main
    main({'realval': realval, 'realval_reach': realval_reach})
