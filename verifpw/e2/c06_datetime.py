"""C06-H3 (E2): CIMDateTime string -> object -> string -> object for ALL field values and
every legal asterisk pattern.

Input: a 25-character DSP0004-shaped string whose digit positions are SYMBOLIC digits and
whose asterisk positions follow a concrete precision pattern (one run per pattern and sign).
Interpreted from the current source: CIMDateTime.__init__ (string branch), _to_int, __str__,
_to_str, the precision/is_interval/minutes_from_utc properties, both regexes.
Obligations per path on which the constructor accepts the string:
  len(str(x)) == 25, every position of str(x) is a digit / '*' / the fixed punctuation,
  CIMDateTime(str(x)) is accepted and has the same kind, fields, UTC offset and precision.
"""
import os
import time
import z3
from verifpw.astz3 import Engine, SymStr, SymInt, PyRaise, Unsupported
from verifpw.astz3.core import zint, SymBool
from verifpw.astz3 import dtmodel
from verifpw import kf
import pywbem
import pywbem._cim_types as ct
from pywbem import CIMDateTime

HID = 'verifpw.e2.c06_datetime:roundtrip'
INTERP = {'pywbem._cim_types', 'pywbem._utils'}
TS_PREC = [None, 0, 4, 6, 8, 10, 12, 15, 16, 17, 18, 19, 20]
IV_PREC = [None, 0, 8, 10, 12, 15, 16, 17, 18, 19, 20]


def stubs():
    return {ct.datetime: dtmodel.stub_datetime, ct.timedelta: dtmodel.stub_timedelta,
            ct.MinutesFromUTC: dtmodel.stub_tz, ct._format: lambda e, *a, **k: 'msg'}


def make_input(kind, prec, sign):
    """(SymStr, digit variables, constraints)"""
    cs = []
    dv = []
    pre = []
    for i in range(25):
        if i == 14:
            cs.append(ord('.'))
        elif i == 21:
            cs.append(ord(sign if kind == 'ts' else ':'))
        elif i >= 22 and kind == 'iv':
            cs.append(ord('0'))
        elif prec is not None and prec <= i <= 20:
            cs.append(ord('*'))
        else:
            d = z3.Int('in%d' % i)
            dv.append((i, d))
            pre.append(z3.And(d >= 0, d <= 9))
            cs.append(48 + d)
    return SymStr(cs), dv, pre


def fields(x):
    """(kind, list of field terms, offset term, precision) of a parsed CIMDateTime with model internals."""
    td = x._CIMDateTime__timedelta
    dt = x._CIMDateTime__datetime
    prec = x._CIMDateTime__precision
    if td is not None:
        return 'iv', [td.fields[k] for k in ('days', 'seconds', 'microseconds')], 0, prec
    return 'ts', [dt.fields[k] for k in ('year', 'month', 'day', 'hour', 'minute', 'second', 'microsecond')], \
        dt.fields['tzinfo'].fields['offset'], prec


def check_pattern(kind, prec, sign, deadline, stats, cexs):
    eng = Engine(set(INTERP), stubs=stubs())
    s, dv, pre = make_input(kind, prec, sign)

    def decode(m):
        out = []
        for c in s.cs:
            out.append(chr(c) if isinstance(c, int) else chr(m.eval(c, model_completion=True).as_long()))
        return ''.join(out)

    def thunk():
        eng.solver.add(*pre)
        if eng.truth(_kf(eng, kind, prec, s)):
            return ('skipped',)
        x = object.__new__(CIMDateTime)
        try:
            eng.call(CIMDateTime.__init__, [x, s], {})
        except PyRaise as e:
            return ('rejected', e.exc)
        td = x._CIMDateTime__timedelta
        if td is not None and not isinstance(td.fields['days'], int):
            # "every CIMDateTime x whose value DSP0004 can express (interval of 0..99999999 days)"
            if not eng.truth(SymBool(zint(td.fields['days']) <= 99999999)):
                return ('not-expressible',)
        s2 = eng.call(CIMDateTime.__str__, [x], {})
        x2 = object.__new__(CIMDateTime)
        try:
            eng.call(CIMDateTime.__init__, [x2, s2], {})
        except PyRaise as e:
            return ('reparse-failed', e.exc, s2)
        return ('ok', x, s2, x2)

    def report(msg, cond=None):
        st, m = eng.model_if_sat(z3.BoolVal(True) if cond is None else cond)
        if st == z3.sat:
            cexs.append({'args': {'text': decode(m)}, 'message': msg})
        elif st != z3.unsat:
            stats['unknown'] += 1

    def on_path(out, eng):
        kind_, val = out
        if kind_ == 'raise':
            report('harness raised %r' % (val,))
            return
        tag = val[0]
        stats['outcomes'][tag] = stats['outcomes'].get(tag, 0) + 1
        if tag in ('skipped', 'not-expressible'):
            return
        if tag == 'rejected':
            if not isinstance(val[1], ValueError):
                report('constructor raised %s' % type(val[1]).__name__)
            return
        if tag == 'reparse-failed':
            report('CIMDateTime(str(x)) raised %s: %s' % (type(val[1]).__name__, str(val[1])[:60]))
            return
        _, x, s2, x2 = val
        from verifpw.astz3.strings import lift
        s2 = lift(s2)
        if len(s2.cs) != 25:
            report('str(x) has %d characters' % len(s2.cs))
            return
        # grammar positions
        bad = []
        for i, c in enumerate(s2.cs):
            if i == 14:
                ok = (c == 46) if isinstance(c, int) else (c == 46)
            elif i == 21:
                ok = (c in (43, 45, 58)) if isinstance(c, int) else z3.Or(c == 43, c == 45, c == 58)
            else:
                ok = (48 <= c <= 57 or c == 42) if isinstance(c, int) else z3.Or(z3.And(c >= 48, c <= 57), c == 42)
            if ok is False:
                bad.append(z3.BoolVal(True))
            elif ok is not True:
                bad.append(z3.Not(ok))
        if bad:
            report('str(x) is not a DSP0004 datetime string', z3.Or(*bad))
        k1, f1, o1, p1 = fields(x)
        k2, f2, o2, p2 = fields(x2)
        if k1 != k2:
            report('kind changed')
            return
        if p1 != p2:
            report('precision changed from %r to %r' % (p1, p2))
            return
        diffs = [zint(a) != zint(b) for a, b in zip(f1, f2)] + [zint(o1) != zint(o2)]
        report('CIMDateTime(str(x)) differs from x in a field or the UTC offset', z3.Or(*diffs))

    try:
        done = eng.explore(thunk, on_path, deadline)
    except Unsupported as u:
        stats.setdefault('unsupported', []).append('%s prec=%r: %s' % (kind, prec, u))
        done = False
    stats['paths'] += eng.paths
    stats['completed'] += getattr(eng, 'completed', 0)
    stats['queries'] += eng.queries
    stats['funcs'] |= eng.funcs_seen
    return done


def _kf(eng, kind, prec, s):
    for e in kf.open_entries('C06'):
        if e['harness'] != HID:
            continue
        if eval(e['when'], {}, {'kind': kind, 'prec': prec}):
            return True
    return False


def patterns():
    out = []
    for p in TS_PREC:
        for sign in '+-':
            out.append(('ts', p, sign))
    for p in IV_PREC:
        out.append(('iv', p, ':'))
    return out


def roundtrip(deadline, part, nparts):
    stats = {'paths': 0, 'completed': 0, 'queries': 0, 'outcomes': {}, 'funcs': set(), 'unknown': 0}
    cexs = []
    exhausted = True
    done_p = []
    for i, (kind, prec, sign) in enumerate(patterns()):
        if i % nparts != part:
            continue
        if time.time() > deadline:
            exhausted = False
            break
        ok = check_pattern(kind, prec, sign, deadline, stats, cexs)
        exhausted = exhausted and ok
        done_p.append('%s/%r/%s' % (kind, prec, sign))
        if cexs:
            break
    res = {'status': 'CONFIRMED' if (exhausted and not cexs and not stats['unknown'] and not stats.get('unsupported')) else 'UNKNOWN',
           'paths': stats['paths'], 'confirmed_paths': stats['completed'], 'queries': stats['queries'], 'cexs': cexs[:3],
           'extra': {'patterns': done_p, 'outcomes': stats['outcomes'], 'functions_interpreted': sorted(stats['funcs']),
                     'solver_unknown': stats['unknown'], 'unsupported': stats.get('unsupported', []),
                     'bounds': 'all digit values at every digit position; every legal asterisk pattern; both offset signs; intervals with canonical hh<24 mm<60 ss<60 (others: timedelta carry not modelled)'}}
    if stats.get('unsupported'):
        res['status'] = 'ERROR'
        res['messages'] = [{'state': 'encoding_unsupported', 'message': '; '.join(stats['unsupported'][:3])}]
    return res


def roundtrip_reach(deadline, part, nparts):
    stats = {'paths': 0, 'completed': 0, 'queries': 0, 'outcomes': {}, 'funcs': set(), 'unknown': 0}
    cexs = []
    check_pattern('ts', 12, '-', deadline, stats, cexs)
    check_pattern('iv', None, ':', deadline, stats, cexs)
    ok = stats['outcomes'].get('ok', 0) >= 2 and stats['outcomes'].get('rejected', 0) > 0
    return {'status': 'UNKNOWN', 'paths': stats['paths'], 'queries': stats['queries'],
            'cexs': [{'args': {'outcomes': stats['outcomes']}, 'message': 'reachable'}] if ok else []}


def replay_roundtrip(text):
    try:
        x = CIMDateTime(text)
    except ValueError as e:
        return False, 'rejected: %s' % e
    except Exception as e:
        return True, 'constructor raised %s: %s' % (type(e).__name__, e)
    s2 = str(x)
    import re
    if len(s2) != 25 or not re.fullmatch(r'[0-9*]{14}\.[0-9*]{6}[+\-:][0-9]{3}', s2):
        return True, 'str(x) = %r is not a 25-character DSP0004 datetime' % s2
    try:
        x2 = CIMDateTime(s2)
    except Exception as e:
        return True, 'CIMDateTime(str(x)) raised %s for %r -> %r' % (type(e).__name__, text, s2)
    same = (x2 == x and x2.is_interval == x.is_interval and x2.minutes_from_utc == x.minutes_from_utc and x2.precision == x.precision)
    return (not same), '%r -> %r -> %r' % (text, s2, str(x2))


if __name__ == '__main__':
    from verifpw.e2main import main
    main({'roundtrip': roundtrip, 'roundtrip_reach': roundtrip_reach})
