"""Generic differential driver for E2 string kernels: impl(s) vs ref(s) for ALL strings of
length 0..L over a stated alphabet; both are interpreted on the same symbolic string."""
import time
import z3
from verifpw.astz3 import Engine, SymStr, SymInt, PyRaise, Unsupported
from verifpw.astz3.core import zint, is_sym


def kf_skip(eng, harness_id, env):
    """Evaluate the `when` predicates of the open known findings of this harness on symbolic
    arguments by interpreting the predicate expression (forks like any other condition)."""
    import ast
    from verifpw import kf
    from verifpw.astz3.core import Frame
    from verifpw.e2 import refs
    for e in kf.open_entries():
        pats = e.get('applies_to') or [e['harness']]
        if harness_id not in pats:
            continue
        tree = ast.parse(e['when'], mode='eval')
        fr = Frame(eng, refs._kf_scope, dict(env))
        if eng.truth(fr.ev(tree.body)):
            return True
    return False


def concretize(v, m):
    if isinstance(v, tuple) and len(v) == 3 and v[0] == 'typed':
        return concretize(v[2], m)
    if isinstance(v, SymInt):
        return m.eval(v.t, model_completion=True).as_long()
    if isinstance(v, SymStr):
        return ''.join(chr(c if isinstance(c, int) else m.eval(c, model_completion=True).as_long()) for c in v.cs)
    if isinstance(v, (list, tuple)):
        return type(v)(concretize(x, m) for x in v)
    return v


def native_disagrees(impl, w, a, m):
    try:
        nat = ('return', impl(w))
    except Exception as e:      # noqa
        nat = ('raise', e)
    if nat[0] != a[0]:
        return 'input %r: interpreter %s, native %s %r' % (w, a[0], nat[0], nat[1])
    if a[0] == 'raise':
        if type(a[1]) is not type(nat[1]):
            return 'input %r: interpreter raises %s, native raises %s' % (w, type(a[1]).__name__, type(nat[1]).__name__)
        return None
    cv = concretize(a[1], m)
    if hasattr(cv, 'kind'):      # SymReal etc: class only
        return None
    if cv != nat[1]:
        return 'input %r: interpreter returns %r, native returns %r' % (w, cv, nat[1])
    return None


def decode(m, cs):
    return ''.join(chr(c) if isinstance(c, int) else chr(m.eval(c, model_completion=True).as_long()) for c in cs)


def values_differ(eng, a, b):
    """z3 condition (or python bool) under which outcome values a and b differ."""
    if a is None or b is None:
        return not (a is None and b is None)
    if isinstance(a, tuple) and isinstance(b, tuple) and len(a) == 3 and a[0] == 'typed':
        a = a[2]
    if isinstance(a, (int, SymInt)) and isinstance(b, (int, SymInt)) and not isinstance(a, bool):
        if isinstance(a, int) and isinstance(b, int):
            return a != b
        return zint(a) != zint(b)
    r = eng.eq(a, b)
    if isinstance(r, bool):
        return not r
    return z3.Not(r.t)


def run_diff(impl, ref, interp, lengths, alphabet, deadline, stubs=None, allowed_exc=(), skip=None,
             name='s', stats=None, classify=None, nonascii=(), prefix='', suffix=''):
    """alphabet: function(c) -> z3 constraint on a code point variable.
    Returns (exhausted, cexs, stats)."""
    stats = stats if stats is not None else {'paths': 0, 'completed': 0, 'queries': 0, 'outcomes': {}, 'funcs': set(), 'unknown': 0}
    cexs = []
    exhausted = True
    for n in lengths:
        eng = Engine(set(interp), stubs=dict(stubs or {}))
        eng.nonascii_domain = tuple(nonascii)
        cs = [z3.Int('c%d' % i) for i in range(n)]
        pre = [alphabet(c) for c in cs]
        s = SymStr(cs) if n else ''
        if prefix or suffix:
            s = SymStr([ord(x) for x in prefix] + cs + [ord(x) for x in suffix])
            _cs = cs
            cs = s.cs                 # decode() renders the whole string

        def thunk():
            if pre:
                eng.solver.add(*pre)
            if skip is not None and eng.truth(skip(eng, s)):
                return ('skipped', None, None)
            try:
                a = ('return', eng.call(impl, [s], {}))
            except PyRaise as e:
                a = ('raise', e.exc)
            try:
                b = ('return', eng.call(ref, [s], {}))
            except PyRaise as e:
                b = ('raise', e.exc)
            return ('pair', a, b)

        def on_path(out, eng):
            kind, val = out
            if kind == 'raise':
                st, m = eng.model_if_sat(z3.BoolVal(True))
                cexs.append({'args': {name: decode(m, cs)}, 'message': 'harness raised %r' % (val,)})
                return
            tag, a, b = val
            if tag == 'skipped':
                stats['outcomes']['skipped(outside domain or known finding)'] = stats['outcomes'].get('skipped(outside domain or known finding)', 0) + 1
                return
            key = '%s:%s' % (a[0], type(a[1]).__name__ if a[0] == 'raise' else ('None' if a[1] is None else 'value'))
            stats['outcomes'][key] = stats['outcomes'].get(key, 0) + 1
            # interpreter validation (Serval style): the path's outcome, evaluated in a model of
            # the path condition, must equal the native run of the real function on that input
            if stats.setdefault('validated', 0) < 300 and not getattr(eng, 'approx', False):
                st0, m0 = eng.model_if_sat(z3.BoolVal(True))
                if st0 == z3.sat:
                    w0 = decode(m0, cs)
                    stats['validated'] += 1
                    d = native_disagrees(impl, w0, a, m0)
                    if d:
                        stats.setdefault('model_disagreements', []).append(d)
            if a[0] == 'raise':
                if isinstance(a[1], allowed_exc) and b[0] == 'raise':
                    return
                if isinstance(a[1], allowed_exc) and b[0] == 'return' and b[1] is None and classify == 'none_or_raise':
                    return
                st, m = eng.model_if_sat(z3.BoolVal(True))
                if st == z3.sat:
                    cexs.append({'args': {name: decode(m, cs)}, 'message': 'raised %s: %s (reference: %s)' % (
                        type(a[1]).__name__, str(a[1])[:80], 'raises' if b[0] == 'raise' else 'returns a value')})
                return
            if b[0] == 'raise':
                st, m = eng.model_if_sat(z3.BoolVal(True))
                if st == z3.sat:
                    cexs.append({'args': {name: decode(m, cs)}, 'message': 'returned a value where the reference rejects'})
                return
            cond = values_differ(eng, a[1], b[1])
            if cond is False:
                return
            st, m = eng.model_if_sat(z3.BoolVal(True) if cond is True else cond)
            if st == z3.sat:
                w = decode(m, cs)
                cexs.append({'args': {name: w}, 'message': 'result differs from the reference reading of %r' % w})
            elif st != z3.unsat:
                stats['unknown'] += 1

        done = eng.explore(thunk, on_path, deadline)
        stats['paths'] += eng.paths
        stats['completed'] += getattr(eng, 'completed', 0)
        stats['queries'] += eng.queries
        stats['funcs'] |= eng.funcs_seen
        if not done:
            exhausted = False
            break
        if cexs:
            break
    return exhausted, cexs, stats


def result(exhausted, cexs, stats, extra=None):
    ex = {'outcomes': stats['outcomes'], 'functions_interpreted': sorted(stats['funcs']), 'solver_unknown': stats['unknown'],
          'interpreter_validation': {'paths_cross_checked_natively': stats.get('validated', 0), 'disagreements': stats.get('model_disagreements', [])[:5]}}
    ex.update(extra or {})
    if stats.get('model_disagreements'):
        return {'status': 'ERROR', 'messages': [{'state': 'interpreter_disagrees_with_native', 'message': '; '.join(stats['model_disagreements'][:3])}],
                'paths': stats['paths'], 'queries': stats['queries'], 'cexs': [], 'extra': ex}
    return {'status': 'CONFIRMED' if (exhausted and not cexs and not stats['unknown']) else 'UNKNOWN',
            'paths': stats['paths'], 'confirmed_paths': stats['completed'], 'queries': stats['queries'],
            'cexs': cexs[:3], 'extra': ex}


def run_total(call, native, interp, lengths, alphabet, deadline, allowed_exc, stubs=None, skip=None, name='s',
              stats=None, post=None, nonascii=()):
    """Totality check: for ALL strings of the given lengths over the alphabet, `call(eng, s)`
    returns a value (optionally satisfying post(eng, s, value) -> z3 condition for 'bad') or
    raises one of allowed_exc.  `native(w)` runs the real code on a concrete string for the
    interpreter validation."""
    stats = stats if stats is not None else {'paths': 0, 'completed': 0, 'queries': 0, 'outcomes': {}, 'funcs': set(), 'unknown': 0}
    cexs = []
    exhausted = True
    for n in lengths:
        eng = Engine(set(interp), stubs=dict(stubs or {}))
        eng.nonascii_domain = tuple(nonascii)
        cs = [z3.Int('c%d' % i) for i in range(n)]
        pre = [alphabet(c) for c in cs]
        s = SymStr(cs) if n else ''

        def thunk():
            if pre:
                eng.solver.add(*pre)
            if skip is not None and eng.truth(skip(eng, s)):
                return 'skipped'
            try:
                return ('return', call(eng, s))
            except PyRaise as e:
                return ('raise', e.exc)

        def on_path(out, eng):
            kind, val = out
            if kind == 'raise':
                st, m = eng.model_if_sat(z3.BoolVal(True))
                cexs.append({'args': {name: decode(m, cs)}, 'message': 'harness raised %r' % (val,)})
                return
            if val == 'skipped':
                stats['outcomes']['skipped(outside domain or known finding)'] = stats['outcomes'].get('skipped(outside domain or known finding)', 0) + 1
                return
            a = val
            key = '%s:%s' % (a[0], type(a[1]).__name__ if a[0] == 'raise' else 'value')
            stats['outcomes'][key] = stats['outcomes'].get(key, 0) + 1
            if stats.setdefault('validated', 0) < 300 and not getattr(eng, 'approx', False):
                st0, m0 = eng.model_if_sat(z3.BoolVal(True))
                if st0 == z3.sat:
                    stats['validated'] += 1
                    d = native_disagrees(native, decode(m0, cs), a, m0)
                    if d:
                        stats.setdefault('model_disagreements', []).append(d)
            if a[0] == 'raise':
                if isinstance(a[1], allowed_exc):
                    return
                st, m = eng.model_if_sat(z3.BoolVal(True))
                if st == z3.sat:
                    cexs.append({'args': {name: decode(m, cs)}, 'message': '%s escaped: %s' % (type(a[1]).__name__, str(a[1])[:100])})
                return
            if post is not None:
                bad = post(eng, s, a[1])
                if bad is False:
                    return
                st, m = eng.model_if_sat(z3.BoolVal(True) if bad is True else bad)
                if st == z3.sat:
                    cexs.append({'args': {name: decode(m, cs)}, 'message': 'result violates the postcondition'})
                elif st != z3.unsat:
                    stats['unknown'] += 1

        done = eng.explore(thunk, on_path, deadline)
        stats['paths'] += eng.paths
        stats['completed'] += getattr(eng, 'completed', 0)
        stats['queries'] += eng.queries
        stats['funcs'] |= eng.funcs_seen
        if not done:
            exhausted = False
            break
        if cexs:
            break
    return exhausted, cexs, stats
