"""C18-H1 (E2): ownership isolation between subscription managers with different IDs.

For manager ID A (from a family of regex-significant shapes) the REAL discovery patterns
are obtained by running the real WBEMSubscriptionManager.add_server() on a stub server with
re.compile intercepted.  The Name a manager B creates is built from the format template
found in the AST of _create_filter/_create_destination.  Question decided by the solver:
is there a manager ID B != A (any printable ASCII without ':', length <= LB) and a
filter/destination ID (length <= LF) such that A's discovery pattern matches B's Name?
The pattern is executed by E2's regex contract (Python semantics incl. anchors/alternation).
"""
import ast
import inspect
import os
import re
import time
import z3
from verifpw.astz3 import Engine, SymStr
from verifpw.astz3 import regex as rx
from verifpw.astz3.core import SymBool
from verifpw import kf
import pywbem
import pywbem._subscription_manager as sm
from pywbem import WBEMSubscriptionManager, WBEMServer

HID = 'verifpw.e2.c18_ownership:isolation'
FAMILY = ['mgr1', 'ab', 'a.c', 'a|b', '.*', 'a+', '[ab]', '(a)', 'a?', 'a\\d', '^a', 'a$', 'a*', 'a{2}', 'x\\', 'A']


class StubConn:
    def EnumerateInstances(self, *a, **k):
        return []


class StubServer(WBEMServer):
    def __init__(self):          # no connection needed
        pass
    url = 'http://stub'
    interop_ns = 'interop'
    conn = StubConn()
    cimom_inst = {'SystemName': 'sys'}


class ReProxy:
    def __init__(self):
        self.patterns = []

    def __getattr__(self, name):
        return getattr(re, name)

    def compile(self, pattern, flags=0):
        p = re.compile(pattern, flags)
        self.patterns.append(p)
        return p


def discovery_patterns(mgr_id):
    """The compiled patterns add_server() uses for this manager ID (current source)."""
    proxy = ReProxy()
    saved = sm.re
    sm.re = proxy
    try:
        m = WBEMSubscriptionManager(subscription_manager_id=mgr_id)
        m.add_server(StubServer())
    finally:
        sm.re = saved
    out = {}
    for p in proxy.patterns:
        if 'owned' in p.pattern:
            continue                      # old-name-format patterns only produce warnings
        if 'pywbemfilter' in p.pattern:
            out['filter'] = p
        elif 'pywbemdestination' in p.pattern:
            out['destination'] = p
    return out


def name_templates():
    """'pywbemfilter:{0}:{1}' style templates from the AST of the creating methods."""
    out = {}
    for kind, fn in (('filter', WBEMSubscriptionManager._create_filter), ('destination', WBEMSubscriptionManager._create_destination)):
        tree = ast.parse(inspect.getsource(fn).lstrip() if False else __import__('textwrap').dedent(inspect.getsource(fn)))
        for node in ast.walk(tree):
            if isinstance(node, ast.Constant) and isinstance(node.value, str) and node.value.startswith('pywbem' + kind) and '{0}' in node.value:
                out[kind] = node.value
    return out


def printable(c):
    return z3.And(c >= 32, c <= 126, c != 58)


def check(mgr_id, kind, pat, tmpl, lb, lf, deadline, stats, cexs):
    prefix, rest = tmpl.split('{0}')
    mid, suffix = rest.split('{1}')
    for nb in range(1, lb + 1):
        for nf in range(0, lf + 1):
            if time.time() > deadline:
                return False
            eng = Engine(set())
            b = [z3.Int('b%d' % i) for i in range(nb)]
            f = [z3.Int('f%d' % i) for i in range(nf)]
            pre = [printable(c) for c in b + f]
            # B != A
            if nb == len(mgr_id):
                pre.append(z3.Or(*[b[i] != ord(mgr_id[i]) for i in range(nb)]))
            name = SymStr([ord(x) for x in prefix] + b + [ord(x) for x in mid] + f + [ord(x) for x in suffix])

            def thunk():
                eng.solver.add(*pre)
                return rx.run(eng, pat, name, 'match')

            def on_path(out, eng):
                k, val = out
                stats['outcomes'][('match' if (k == 'return' and val is not None) else 'nomatch')] = \
                    stats['outcomes'].get(('match' if (k == 'return' and val is not None) else 'nomatch'), 0) + 1
                if k == 'return' and val is not None:
                    st, m = eng.model_if_sat(z3.BoolVal(True))
                    if st == z3.sat:
                        bs = ''.join(chr(m.eval(c, model_completion=True).as_long()) for c in b)
                        fs = ''.join(chr(m.eval(c, model_completion=True).as_long()) for c in f)
                        cexs.append({'args': {'a': mgr_id, 'b': bs, 'kind': kind, 'obj_id': fs},
                                     'message': 'manager %r claims the %s %r created by manager %r' % (mgr_id, kind, tmpl.format(bs, fs), bs)})
            done = eng.explore(thunk, on_path, deadline)
            stats['paths'] += eng.paths
            stats['completed'] += getattr(eng, 'completed', 0)
            stats['queries'] += eng.queries
            if not done:
                return False
            if cexs:
                return True
    return True


def isolation(deadline, part, nparts):
    tier = os.environ.get('VERIF_TIER', 'quick')
    lb, lf = (3, 1) if tier == 'quick' else (5, 2)
    tm = name_templates()
    stats = {'paths': 0, 'completed': 0, 'queries': 0, 'outcomes': {}}
    cexs = []
    ex = True
    done = []
    for i, a in enumerate(FAMILY):
        if i % nparts != part:
            continue
        if any(eval(e['when'], {}, {'a': a}) for e in kf.open_entries('C18') if e['harness'] == HID):
            continue
        pats = discovery_patterns(a)
        for kind in ('filter', 'destination'):
            if kind not in pats or kind not in tm:
                return {'status': 'ERROR', 'messages': [{'state': 'anchor_missing', 'message': 'pattern/template for %s not found' % kind}]}
            ok = check(a, kind, pats[kind], tm[kind], lb, lf, deadline, stats, cexs)
            ex = ex and ok
            if cexs:
                break
        done.append(a)
        if cexs:
            break
    return {'status': 'CONFIRMED' if (ex and not cexs) else 'UNKNOWN', 'paths': stats['paths'], 'confirmed_paths': stats['completed'],
            'queries': stats['queries'], 'cexs': cexs[:3],
            'extra': {'manager_ids': done, 'outcomes': {str(k): v for k, v in stats['outcomes'].items()}, 'templates': tm,
                      'bounds': 'other manager ID: every printable-ASCII string without ":" of length 1..%d; filter/destination ID length 0..%d' % (lb, lf),
                      'contracts': ['re.match -> sre_parse backtracking matcher']}}


def isolation_reach(deadline, part, nparts):
    """Vacuity: A's own names must match A's pattern."""
    tm = name_templates()
    ok = True
    for a in ('mgr1', 'ab'):
        pats = discovery_patterns(a)
        for kind in ('filter', 'destination'):
            if not re.match(pats[kind], tm[kind].format(a, 'f1')):
                ok = False
    return {'status': 'UNKNOWN', 'paths': 1, 'queries': 0,
            'cexs': [{'args': {'templates': tm}, 'message': 'own names are matched'}] if ok else []}


def replay_isolation(a, b, kind, obj_id):
    """Native replay through the public API on the mock server: B creates, a fresh manager A must not own it."""
    import warnings
    warnings.simplefilter('ignore')
    from verifpw.e2 import c18_mock
    return c18_mock.foreign_claim(a, b, kind, obj_id)


if __name__ == '__main__':
    from verifpw.e2main import main
    main({'isolation': isolation, 'isolation_reach': isolation_reach})
