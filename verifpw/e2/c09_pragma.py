"""C09-H1b (E2): p_compilerDirective with '#pragma namespace(<param>)' for ALL parameter
strings up to length L: the semantic action returns or raises MOFCompileError - nothing else
(e.g. no AttributeError from a failed regex match)."""
import os
import z3
from verifpw import kf
from verifpw.e2 import diff
from verifpw.astz3.core import SymDict
import pywbem
import pywbem._mof_compiler as mc
from pywbem import MOFCompileError


def alphabet(c):
    return z3.And(c >= 1, c <= 127)


class Parser:
    file = None
    verbose = False
    target_namespace = 'root/x'

    def log(self, *a):
        pass


class Prod:
    """Stands for the PLY production object p of the semantic action."""
    def __init__(self, eng, name, param):
        self.items = {3: name, 5: param}
        self.parser = Parser()
        self.parser.qualcache = SymDict(eng)
        self.lexer = None

    def __getitem__(self, i):
        return self.items[i]

    def __setitem__(self, i, v):
        self.items[i] = v


def pragma(deadline, part, nparts):
    L = 3 if os.environ.get('VERIF_TIER', 'quick') == 'quick' else 5

    def call(eng, s):
        p = Prod(eng, 'namespace', s)
        eng.call(mc.p_compilerDirective, [p], {})
        return p.parser.target_namespace

    def native(w):
        class NP(Prod):
            pass
        p = Prod(None, 'namespace', w)
        p.parser.qualcache = {}
        saved = mc.MOFParseError
        mc.MOFParseError = lambda *a, **k: _mk_parse_error(None)     # the stub production has no lexer position
        try:
            mc.p_compilerDirective(p)
        finally:
            mc.MOFParseError = saved
        return p.parser.target_namespace
    stubs = {mc._format: lambda e, *a, **k: 'msg', _REAL_PARSE_ERROR: _mk_parse_error}
    ex, cexs, st = diff.run_total(call, native, {'pywbem._mof_compiler'}, range(0, L + 1), alphabet, deadline, (MOFCompileError,), stubs=stubs, name='param')
    return diff.result(ex, cexs, st, {'bounds': 'all pragma parameter strings of length 0..%d over ASCII U+0001..U+007F' % L,
                                      'contracts': ['re.Pattern.match with groups (WBEM_URI_NAMESPACEPATH_REGEXP)', 'MOFParseError(...) constructed without token position']})


_REAL_PARSE_ERROR = mc.MOFParseError


def _mk_parse_error(eng, *a, **k):
    e = _REAL_PARSE_ERROR.__new__(_REAL_PARSE_ERROR)
    Exception.__init__(e, None, None, None, None)
    e._msg = 'msg'
    return e


def pragma_reach(deadline, part, nparts):
    res = pragma(deadline, 0, 1)
    oc = res['extra']['outcomes']
    ok = oc.get('return:value', 0) > 0 and oc.get('raise:MOFParseError', 0) > 0
    return {'status': 'UNKNOWN', 'paths': res['paths'], 'queries': res['queries'],
            'cexs': [{'args': {'outcomes': oc}, 'message': 'reachable'}] if ok else []}


def replay_pragma(param):
    import warnings
    warnings.simplefilter('ignore')
    from pywbem import MOFCompiler
    from pywbem._mof_compiler import MOFWBEMConnection
    lit = '"' + param.replace('\\', '\\\\').replace('"', '\\"') + '"'
    comp = MOFCompiler(MOFWBEMConnection(), log_func=None)
    try:
        comp.compile_string('#pragma namespace(%s)\n' % lit, 'root/x')
    except MOFCompileError:
        return False, 'MOFCompileError'
    except Exception as e:
        return True, '%s escaped from compile_string for #pragma namespace(%s)' % (type(e).__name__, lit)
    return False, 'accepted'


if __name__ == '__main__':
    from verifpw.e2main import main
    main({'pragma': pragma, 'pragma_reach': pragma_reach})
