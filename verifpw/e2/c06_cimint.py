"""C06-H1 (E2): CIMInt.__new__ for the 8 integer types and ALL Python ints x (unbounded):
construction succeeds  <=>  lo(T) <= x <= hi(T)  (DSP0004 limits written here, not read from
the class), the result is of class T and holds x; otherwise ValueError.
Also the timedelta/datetime-free constructor forms: x given as keyword `x=`."""
import z3
from verifpw.astz3 import Engine, SymInt, PyRaise, Unsupported
from verifpw.astz3.core import zint
import pywbem
import pywbem._cim_types as ct

LIMITS = {'Uint8': (0, 2**8 - 1), 'Sint8': (-2**7, 2**7 - 1), 'Uint16': (0, 2**16 - 1), 'Sint16': (-2**15, 2**15 - 1),
          'Uint32': (0, 2**32 - 1), 'Sint32': (-2**31, 2**31 - 1), 'Uint64': (0, 2**64 - 1), 'Sint64': (-2**63, 2**63 - 1)}


def _check(cname, deadline, stats, cexs):
    cls = getattr(pywbem, cname)
    lo, hi = LIMITS[cname]
    eng = Engine({'pywbem._cim_types'}, stubs={ct._format: lambda e, *a, **k: 'msg'})
    x = z3.Int('x')

    def thunk():
        return eng.call(cls, [SymInt(x)], {})

    def on_path(out, eng):
        kind, val = out
        key = kind + ':' + (type(val).__name__ if kind == 'raise' else 'value')
        stats['outcomes'][key] = stats['outcomes'].get(key, 0) + 1
        inr = z3.And(x >= lo, x <= hi)
        if kind == 'raise':
            if not isinstance(val, ValueError):
                bad = z3.BoolVal(True)
                msg = '%s(x) raised %s' % (cname, type(val).__name__)
            else:
                bad = inr
                msg = '%s(x) rejected a value inside the DSP0004 range' % cname
        else:
            if not (isinstance(val, tuple) and val[0] == 'typed' and val[1] is cls):
                bad = z3.BoolVal(True)
                msg = '%s(x) returned an object that is not a %s' % (cname, cname)
            else:
                bad = z3.Or(z3.Not(inr), zint(val[2]) != x)
                msg = '%s(x) accepted a value outside the DSP0004 range or stored a different value' % cname
        st, m = eng.model_if_sat(bad)
        if st == z3.sat:
            cexs.append({'args': {'cls': cname, 'x': m.eval(x, model_completion=True).as_long()}, 'message': msg})
        elif st != z3.unsat:
            stats['unknown'] += 1

    done = eng.explore(thunk, on_path, deadline)
    stats['paths'] += eng.paths
    stats['completed'] += getattr(eng, 'completed', 0)
    stats['queries'] += eng.queries
    stats['funcs'] |= eng.funcs_seen
    return done


def cimint(deadline, part, nparts):
    stats = {'paths': 0, 'completed': 0, 'queries': 0, 'outcomes': {}, 'funcs': set(), 'unknown': 0}
    cexs = []
    ex = True
    for c in LIMITS:
        ex = _check(c, deadline, stats, cexs) and ex
    return {'status': 'CONFIRMED' if (ex and not cexs and not stats['unknown']) else 'UNKNOWN', 'paths': stats['paths'],
            'confirmed_paths': stats['completed'], 'queries': stats['queries'], 'cexs': cexs[:3],
            'extra': {'outcomes': stats['outcomes'], 'functions_interpreted': sorted(stats['funcs']),
                      'bounds': 'x ranges over ALL integers (z3 Int, unbounded); 8 classes',
                      'contracts': ['int(int) -> identity', 'int.__new__(cls, x) -> typed value']}}


def cimint_reach(deadline, part, nparts):
    stats = {'paths': 0, 'completed': 0, 'queries': 0, 'outcomes': {}, 'funcs': set(), 'unknown': 0}
    cexs = []
    _check('Sint16', deadline, stats, cexs)
    ok = stats['outcomes'].get('return:value', 0) > 0 and stats['outcomes'].get('raise:ValueError', 0) > 0
    return {'status': 'UNKNOWN', 'paths': stats['paths'], 'queries': stats['queries'],
            'cexs': [{'args': {'outcomes': stats['outcomes']}, 'message': 'reachable'}] if ok else []}


def replay_cimint(cls, x):
    c = getattr(pywbem, cls)
    lo, hi = LIMITS[cls]
    try:
        v = c(x)
    except ValueError:
        return (lo <= x <= hi), '%s(%d) rejected' % (cls, x)
    except Exception as e:
        return True, '%s(%d) raised %s' % (cls, x, type(e).__name__)
    return (not (lo <= x <= hi and int(v) == x and type(v) is c)), '%s(%d) = %r' % (cls, x, v)


if __name__ == '__main__':
    from verifpw.e2main import main
    main({'cimint': cimint, 'cimint_reach': cimint_reach})
