"""C20-H3 / C07-H4 (E2): pywbem._utils._integerValue_to_int equals the DSP0004 reading
for ALL strings up to length L (full Unicode, no surrogates)."""
import os
import z3
from verifpw import kf
from verifpw.e2 import refs, diff
import pywbem._utils as u

HID = 'verifpw.e2.c20_intval:intval'


def alphabet(c):
    return z3.And(c >= 1, c <= 0x10FFFF, z3.Or(c < 0xD800, c > 0xDFFF))


def _skip(eng, s):
    return diff.kf_skip(eng, HID, {'s': s})


def intval(deadline, part, nparts):
    L = 4 if os.environ.get('VERIF_TIER', 'quick') == 'quick' else 6
    lengths = [n for n in range(0, L + 1) if n % nparts == part]
    ex, cexs, st = diff.run_diff(u._integerValue_to_int, refs.ref_integer_value,
                                 {'pywbem._utils', 'verifpw.e2.refs'}, lengths, alphabet, deadline,
                                 skip=_skip, name='s')
    return diff.result(ex, cexs, st, {'bounds': 'all strings of length %s over U+0001..U+10FFFF without surrogates' % lengths,
                                      'contracts': ['re.Pattern.match (sre_parse tree, IGNORECASE/UNICODE tables of this interpreter)', 'int(str, base) grammar contract']})


def intval_reach(deadline, part, nparts):
    ex, cexs, st = diff.run_diff(u._integerValue_to_int, refs.ref_integer_value,
                                 {'pywbem._utils', 'verifpw.e2.refs'}, [3], alphabet, deadline, name='s')
    ok = st['outcomes'].get('return:value', 0) > 0 and st['outcomes'].get('return:None', 0) > 0
    return {'status': 'UNKNOWN', 'paths': st['paths'], 'queries': st['queries'],
            'cexs': [{'args': {'outcomes': st['outcomes']}, 'message': 'reachable'}] if ok else []}


def replay_intval(s):
    got = u._integerValue_to_int(s)
    want = refs.ref_integer_value(s)
    return (got != want), '_integerValue_to_int(%r) = %r, DSP0004 reading = %r' % (s, got, want)


if __name__ == '__main__':
    from verifpw.e2main import main
    main({'intval': intval, 'intval_reach': intval_reach})
