"""C02-H2 (E2): TupleParser.unpack_numeric / unpack_boolean / unpack_char16 (and the real
CIMInt.__new__ / CIMFloat construction below them) for ALL strings up to length L:
the outcome is a value of the requested CIM type or CIMXMLParseError - nothing else.
For integer types the returned value must lie in the DSP0004 range of the type (C06)."""
import os
import z3
from verifpw.e2 import diff
from verifpw.astz3 import SymInt
from verifpw.astz3.core import zint
import pywbem
from pywbem import CIMXMLParseError
from pywbem._tupleparse import TupleParser
import pywbem._tupleparse as tpm
import pywbem._cim_types as ct

INTERP = {'pywbem._tupleparse', 'pywbem._cim_types'}
STUBS = {tpm._format: lambda e, *a, **k: 'msg', ct._format: lambda e, *a, **k: 'msg'}
LIMITS = {'uint8': (0, 2**8 - 1), 'sint8': (-2**7, 2**7 - 1), 'uint16': (0, 2**16 - 1), 'sint16': (-2**15, 2**15 - 1),
          'uint32': (0, 2**32 - 1), 'sint32': (-2**31, 2**31 - 1), 'uint64': (0, 2**64 - 1), 'sint64': (-2**63, 2**63 - 1)}
NONASCII = [0xE9, 0x4E2D, 0x1F600]     # neither digit nor white space nor cased: keeps the int()/float() contracts in their ASCII domain


def alphabet(c):
    return z3.Or(z3.And(c >= 1, c <= 127), *[c == x for x in NONASCII])


def _numeric(typ):
    tp = TupleParser()

    def call(eng, s):
        return eng.call(TupleParser.unpack_numeric, [tp, s, typ], {})

    def native(w):
        import warnings
        warnings.simplefilter('ignore')
        return TupleParser().unpack_numeric(w, typ)

    def post(eng, s, v):
        if typ in LIMITS:
            if isinstance(v, tuple) and v[0] == 'typed':
                if v[1] is not getattr(pywbem, typ.capitalize()):
                    return True
                v = v[2]
            else:
                return True          # not a value of the requested CIM type
            lo, hi = LIMITS[typ]
            if isinstance(v, int):
                return not (lo <= v <= hi)
            return z3.Not(z3.And(zint(v) >= lo, zint(v) <= hi))
        return False
    return call, native, post


def unpack(deadline, part, nparts):
    tier = os.environ.get('VERIF_TIER', 'quick')
    L = 4 if tier == 'quick' else 6
    types = ['uint8', 'sint8', 'uint16', 'sint16', 'uint32', 'sint32', 'uint64', 'sint64', 'real32', 'real64', None]
    kernels = [('numeric:%s' % t, _numeric(t)) for t in types]
    tp = TupleParser()
    kernels.append(('boolean', (lambda eng, s: eng.call(TupleParser.unpack_boolean, [tp, s], {}),
                                lambda w: TupleParser().unpack_boolean(w), None)))
    kernels.append(('char16', (lambda eng, s: eng.call(TupleParser.unpack_char16, [tp, s], {}),
                               lambda w: TupleParser().unpack_char16(w), None)))
    stats = None
    allc = []
    exhausted = True
    done = []
    for i, (kname, (call, native, post)) in enumerate(kernels):
        if i % nparts != part:
            continue
        ex, cexs, stats = diff.run_total(call, native, INTERP, range(0, L + 1), alphabet, deadline, (CIMXMLParseError,),
                                         stubs=STUBS, name='data', stats=stats, post=post, nonascii=NONASCII)
        for c in cexs:
            c['args']['kernel'] = kname
        allc += cexs
        exhausted = exhausted and ex
        done.append(kname)
        if allc:
            break
    return diff.result(exhausted, allc, stats, {'kernels': done, 'bounds': 'all strings of length 0..%d over ASCII U+0001..U+007F plus %s' % (L, [hex(x) for x in NONASCII]),
                                                'contracts': ['re.Pattern.match', 'str.strip/lower', 'int(str[,base])', 'float(str) -> class finite/inf/nan', 'int.__new__/float.__new__ typed construction', 'warnings.warn -> no-op']})


def unpack_reach(deadline, part, nparts):
    call, native, post = _numeric('uint8')
    ex, cexs, st = diff.run_total(call, native, INTERP, [2], alphabet, deadline, (CIMXMLParseError,), stubs=STUBS, name='data', post=post)
    ok = st['outcomes'].get('return:value', 0) > 0 and st['outcomes'].get('raise:CIMXMLParseError', 0) > 0
    return {'status': 'UNKNOWN', 'paths': st['paths'], 'queries': st['queries'],
            'cexs': [{'args': {'outcomes': st['outcomes']}, 'message': 'reachable'}] if ok else []}


def replay_unpack(data, kernel):
    import warnings
    warnings.simplefilter('ignore')
    tp = TupleParser()
    try:
        if kernel.startswith('numeric:'):
            t = kernel.split(':')[1]
            t = None if t == 'None' else t
            v = tp.unpack_numeric(data, t)
            if t in LIMITS and not (isinstance(v, getattr(pywbem, t.capitalize())) and LIMITS[t][0] <= int(v) <= LIMITS[t][1]):
                return True, 'unpack_numeric(%r, %r) = %r' % (data, t, v)
        elif kernel == 'boolean':
            tp.unpack_boolean(data)
        else:
            tp.unpack_char16(data)
    except CIMXMLParseError:
        return False, 'CIMXMLParseError'
    except Exception as e:
        return True, '%s escaped from %s(%r): %s' % (type(e).__name__, kernel, data, e)
    return False, 'value'


if __name__ == '__main__':
    from verifpw.e2main import main
    main({'unpack': unpack, 'unpack_reach': unpack_reach})
