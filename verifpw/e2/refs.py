"""Reference functions written from the specification text (DSP0004 etc.), in the small
Python subset the E2 interpreter executes symbolically.  They are run on the SAME symbolic
input as the code under test; the property is `impl(x) == ref(x)` per path (z3)."""


def ref_integer_value(s):
    """DSP0004 integerValue = binaryValue / octalValue / decimalValue / hexValue -> int, else None.
      binaryValue  = [ "+" / "-" ] 1*binaryDigit ( "b" / "B" )
      octalValue   = [ "+" / "-" ] "0" 1*octalDigit
      decimalValue = [ "+" / "-" ] ( positiveDecimalDigit *decimalDigit / "0" )
      hexValue     = [ "+" / "-" ] ( "0x" / "0X" ) 1*hexDigit
    """
    n = len(s)
    i = 0
    sign = 1
    if n > 0 and (s[0] == '+' or s[0] == '-'):
        if s[0] == '-':
            sign = -1
        i = 1
    body = s[i:]
    m = len(body)
    if m == 0:
        return None
    # binary
    if m >= 2 and (body[m - 1] == 'b' or body[m - 1] == 'B'):
        ok = True
        val = 0
        for c in body[:m - 1]:
            if c == '0':
                val = val * 2
            elif c == '1':
                val = val * 2 + 1
            else:
                ok = False
                break
        if ok:
            return sign * val
    # hex
    if m >= 3 and body[0] == '0' and (body[1] == 'x' or body[1] == 'X'):
        ok = True
        val = 0
        for c in body[2:]:
            o = ord(c)
            if 48 <= o <= 57:
                val = val * 16 + (o - 48)
            elif 97 <= o <= 102:
                val = val * 16 + (o - 87)
            elif 65 <= o <= 70:
                val = val * 16 + (o - 55)
            else:
                ok = False
                break
        if ok:
            return sign * val
        return None
    # octal
    if m >= 2 and body[0] == '0':
        val = 0
        for c in body[1:]:
            o = ord(c)
            if 48 <= o <= 55:
                val = val * 8 + (o - 48)
            else:
                return None
        return sign * val
    # decimal
    if m == 1 and body[0] == '0':
        return 0
    o = ord(body[0])
    if not (49 <= o <= 57):
        return None
    val = 0
    for c in body:
        o = ord(c)
        if 48 <= o <= 57:
            val = val * 10 + (o - 48)
        else:
            return None
    return sign * val


def octal_with_zero_digit(s):
    """DSP0004 octalValue whose digits after the leading 0 contain another '0' (e.g. '010', '00')."""
    i = 0
    n = len(s)
    if n > 0 and (s[0] == '+' or s[0] == '-'):
        i = 1
    body = s[i:]
    if len(body) < 2 or body[0] != '0':
        return False
    seen0 = False
    for c in body[1:]:
        o = ord(c)
        if not (48 <= o <= 55):
            return False
        if o == 48:
            seen0 = True
    return seen0


def _kf_scope():
    """Frame whose globals (this module) are visible to known-finding predicates."""


def ref_mof_string_decode(lit):
    """DSP0004 stringValue decoding of ONE quoted literal (including its quotes):
    \\b \\t \\n \\f \\r \\" \\' \\\\ and \\x / \\X followed by 1..4 hex digits (as many as are there, at most 4)."""
    s = lit[1:len(lit) - 1]
    out = ''
    i = 0
    n = len(s)
    while i < n:
        c = s[i]
        if c != '\\':
            out = out + c
            i += 1
            continue
        e = s[i + 1]
        if e == 'b':
            out = out + '\b'
        elif e == 't':
            out = out + '\t'
        elif e == 'n':
            out = out + '\n'
        elif e == 'f':
            out = out + '\f'
        elif e == 'r':
            out = out + '\r'
        elif e == '"':
            out = out + '"'
        elif e == "'":
            out = out + "'"
        elif e == '\\':
            out = out + '\\'
        else:
            # hex escape (the token grammar guarantees x/X and at least one hex digit)
            val = 0
            j = i + 2
            k = 0
            while k < 4 and j < n:
                o = ord(s[j])
                if 48 <= o <= 57:
                    d = o - 48
                elif 97 <= o <= 102:
                    d = o - 87
                elif 65 <= o <= 70:
                    d = o - 55
                else:
                    break
                val = val * 16 + d
                j += 1
                k += 1
            out = out + chr(val)
            i = j
            continue
        i += 2
    return out


def ref_is_real_value(s):
    """DSP0004 realValue = [ "+" / "-" ] *decimalDigit "." 1*decimalDigit [ ( "e" / "E" ) [ "+" / "-" ] 1*decimalDigit ]
    (pywbem additionally accepts INF, -INF, NAN in any case)."""
    n = len(s)
    if n == 3 and (s[0] == 'I' or s[0] == 'i') and (s[1] == 'N' or s[1] == 'n') and (s[2] == 'F' or s[2] == 'f'):
        return True
    if n == 4 and s[0] == '-' and (s[1] == 'I' or s[1] == 'i') and (s[2] == 'N' or s[2] == 'n') and (s[3] == 'F' or s[3] == 'f'):
        return True
    if n == 3 and (s[0] == 'N' or s[0] == 'n') and (s[1] == 'A' or s[1] == 'a') and (s[2] == 'N' or s[2] == 'n'):
        return True
    i = 0
    if i < n and (s[i] == '+' or s[i] == '-'):
        i += 1
    while i < n and 48 <= ord(s[i]) <= 57:
        i += 1
    if i >= n or s[i] != '.':
        return False
    i += 1
    d = 0
    while i < n and 48 <= ord(s[i]) <= 57:
        i += 1
        d += 1
    if d == 0:
        return False
    if i == n:
        return True
    if not (s[i] == 'e' or s[i] == 'E'):
        return False
    i += 1
    if i < n and (s[i] == '+' or s[i] == '-'):
        i += 1
    d = 0
    while i < n and 48 <= ord(s[i]) <= 57:
        i += 1
        d += 1
    return d > 0 and i == n
