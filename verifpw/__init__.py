"""Solver-based checking machinery for pywbem (see /verif/DESIGN.md)."""
