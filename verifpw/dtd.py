"""Minimal DTD reader + validator for the CIM-XML DTD shipped in /repo/tests/dtd.

Parses <!ENTITY % ..>, <!ELEMENT ..>, <!ATTLIST ..> (read at run time from the repo), and
validates a minidom element tree or a (name, attrs, children) tuple tree:
 * content model: the sequence of child element names must match the model (compiled to a
   Python regex over ' name' tokens); text is only allowed where #PCDATA is declared;
 * attributes: only declared ones, #REQUIRED present, enumerated values in range.
Used as oracle by C03 and as vocabulary by the C02 tree generator.
"""
import re

DTD_PATH = '/repo/tests/dtd/DSP0203_2.3.1.dtd'


class Elem:
    def __init__(self, name, model):
        self.name = name
        self.model = model                # raw content model text
        self.pcdata = '#PCDATA' in model
        self.empty = model.strip() == 'EMPTY'
        self.children = [] if self.empty else [t for t in re.findall(r'[A-Za-z_][\w.\-]*', model) if t != 'PCDATA']
        self.children = list(dict.fromkeys(self.children))
        self.attrs = {}                   # name -> (type, default)  type: 'CDATA' | list | 'NMTOKEN'
        self.regex = None


def _model_regex(model):
    m = model.strip()
    if m == 'EMPTY':
        return re.compile(r'^$')
    if m == 'ANY':
        return re.compile(r'^.*$')
    m = m.replace('#PCDATA', '')
    out = ''
    i = 0
    while i < len(m):
        c = m[i]
        if c.isspace():
            i += 1
        elif c == ',':
            i += 1
        elif c in '()|?*+':
            out += c
            i += 1
        else:
            j = i
            while j < len(m) and (m[j].isalnum() or m[j] in '._-'):
                j += 1
            out += '(?: %s)' % re.escape(m[i:j])
            i = j
    out = out.replace('(|', '(').replace('|)', ')').replace('()', '')
    return re.compile('^(?:%s)$' % out)


def load(path=DTD_PATH):
    text = open(path, encoding='utf-8').read()
    text = re.sub(r'<!--.*?-->', ' ', text, flags=re.S)
    ents = {}
    for m in re.finditer(r'<!ENTITY\s+%\s+(\S+)\s+(["\'])(.*?)\2\s*>', text, flags=re.S):
        ents[m.group(1)] = m.group(3)

    def expand(s):
        for _ in range(5):
            s2 = re.sub(r'%([\w.\-]+);', lambda mm: ents.get(mm.group(1), ''), s)
            if s2 == s:
                break
            s = s2
        return s
    elems = {}
    for m in re.finditer(r'<!ELEMENT\s+(\S+)\s+(.*?)>', text, flags=re.S):
        e = Elem(m.group(1), expand(m.group(2)))
        e.regex = _model_regex(e.model)
        elems[e.name] = e
    for m in re.finditer(r'<!ATTLIST\s+(\S+)\s+(.*?)>', text, flags=re.S):
        e = elems.get(m.group(1))
        if e is None:
            continue
        body = expand(m.group(2))
        toks = re.findall(r'\([^)]*\)|"[^"]*"|\'[^\']*\'|\S+', body)
        i = 0
        while i < len(toks):
            name = toks[i]
            typ = toks[i + 1] if i + 1 < len(toks) else 'CDATA'
            i += 2
            if typ.startswith('('):
                typ = [x.strip() for x in typ.strip('()').split('|')]
            default = '#IMPLIED'
            if i < len(toks) and (toks[i].startswith('#') or toks[i][0] in '"\''):
                default = toks[i]
                i += 1
                if default == '#FIXED' and i < len(toks):
                    default = toks[i]
                    i += 1
            e.attrs[name] = (typ, default)
    return elems


_ELEMS = None


def elems():
    global _ELEMS
    if _ELEMS is None:
        _ELEMS = load()
    return _ELEMS


def validate_tt(tt, where=''):
    """Validate a (name, attrs, children) tuple tree. Returns None or a message."""
    E = elems()
    name, attrs, kids = tt[0], tt[1], tt[2]
    e = E.get(name)
    if e is None:
        return '%s/%s: element not declared in the DTD' % (where, name)
    for a in attrs:
        if a not in e.attrs:
            return '%s/%s: attribute %s not declared' % (where, name, a)
        typ = e.attrs[a][0]
        if isinstance(typ, list) and attrs[a] not in typ:
            return '%s/%s: attribute %s value not in %s' % (where, name, a, typ)
    for a, (typ, default) in e.attrs.items():
        if default == '#REQUIRED' and a not in attrs:
            return '%s/%s: required attribute %s missing' % (where, name, a)
    seq = ''
    for k in kids:
        if isinstance(k, str):
            if not e.pcdata and k.strip(' \t\r\n') != '':
                return '%s/%s: text not allowed' % (where, name)
        else:
            seq += ' ' + k[0]
    if not e.regex.match(seq):
        return '%s/%s: children [%s ] do not match (%s)' % (where, name, seq, ' '.join(e.model.split()))
    for k in kids:
        if not isinstance(k, str):
            r = validate_tt(k, where + '/' + name)
            if r:
                return r
    return None


def dom_to_plain_tt(node):
    """minidom element -> tuple tree without any text normalisation (for validation only)."""
    kids = []
    for ch in node.childNodes:
        if ch.nodeType == ch.ELEMENT_NODE:
            kids.append(dom_to_plain_tt(ch))
        else:
            kids.append(ch.data)
    return (node.tagName, dict((k, node.attributes[k].value) for k in node.attributes.keys()), kids)


def validate_dom(node):
    return validate_tt(dom_to_plain_tt(node))
