"""Native replay of a counterexample: fresh process, no CrossHair, no search-time stubs
where the real component exists (verifpw.mode.REPLAY is True; known-finding skipping off).

A counterexample is *reproduced* when the harness function, run natively on the concrete
arguments, violates a `post:` line of its contract or raises an exception outside its
`raises:` list.  Harness modules may provide `replay_<function>(**args)` to run a
stub-free variant (must return (reproduced: bool, detail: str)).
"""
import importlib
import json
import os
import re
import sys
import traceback

os.environ['VERIF_REPLAY'] = '1'
os.environ['VERIF_NO_KF'] = '1'
HERE = os.path.dirname(os.path.dirname(os.path.abspath(__file__)))
for p in (os.path.join(HERE, 'harness'), HERE, '/repo'):
    if p not in sys.path:
        sys.path.insert(0, p)


def contract(fn, glb):
    doc = fn.__doc__ or ''
    posts, raises = [], []
    for line in doc.splitlines():
        line = line.strip()
        m = re.match(r'post(\[[^\]]*\])?:\s*(.*)', line)
        if m:
            posts.append(m.group(2))
        m = re.match(r'raises:\s*(.*)', line)
        if m:
            for name in m.group(1).split(','):
                name = name.strip()
                if name:
                    raises.append(eval(name, glb))
    return posts, tuple(raises)


def run(body):
    import warnings
    warnings.simplefilter('ignore')
    mod = importlib.import_module(body['module'])
    fname = body['function']
    args = body.get('args') or {}
    if '__unparsed__' in args:
        return {'reproduced': None, 'detail': 'arguments could not be parsed: %r' % args}
    custom = getattr(mod, 'replay_' + fname, None)
    if custom is not None:
        ok, detail = custom(**args)
        return {'reproduced': bool(ok), 'detail': detail}
    fn = getattr(mod, fname)
    posts, raises = contract(fn, vars(mod))
    try:
        ret = fn(**args)
    except raises as e:
        return {'reproduced': False, 'detail': 'raised declared %r' % (e,)}
    except Exception as e:
        return {'reproduced': True, 'detail': 'raised %s: %s\n%s' % (type(e).__name__, e, traceback.format_exc()[-1500:])}
    ns = dict(vars(mod))
    ns.update(args)
    ns['_'] = ret
    ns['__return__'] = ret
    for p in posts:
        try:
            if not eval(p, ns):
                return {'reproduced': True, 'detail': 'post %r false; returned %r' % (p, ret)}
        except Exception as e:
            return {'reproduced': True, 'detail': 'post %r raised %r' % (p, e)}
    return {'reproduced': False, 'detail': 'returned %r' % (ret,)}


def main():
    with open(sys.argv[1]) as f:
        body = json.load(f)
    try:
        res = run(body)
    except BaseException as e:  # noqa
        res = {'reproduced': None, 'detail': 'replay error: %r\n%s' % (e, traceback.format_exc()[-2000:])}
    sys.stdout.write('\n@@REPLAY@@' + json.dumps(res, default=repr) + '\n')


if __name__ == '__main__':
    main()
