PROPERTY = 'C02'
_TP = ['pywbem._tupleparse:TupleParser.parse_any', 'pywbem._tupleparse:TupleParser.check_node', 'pywbem._tupleparse:TupleParser.unpack_value',
       'pywbem._tupleparse:TupleParser.unpack_single_value', 'pywbem._tupleparse:TupleParser.parse_property', 'pywbem._tupleparse:TupleParser.parse_instance',
       'pywbem._tupleparse:TupleParser.parse_error', 'pywbem._tupleparse:TupleParser.parse_paramvalue']
HARNESSES = [
    dict(name='H1-parse-tree', engine='crosshair', module='c02_replies', function='parse_tree', reach='parse_tree_reach', functions=_TP,
         stubs=['_format -> constant', 'CIMDateTime(str) run untraced', 'expat -> the tuple tree itself is the symbolic input (well-formedness is expat\'s job)'],
         bounds='tuple trees over the DTD vocabulary (46 response-side roots), depth <=2 (quick) / <=3 (thorough), <=2 children per node, '
                'attributes absent / pool literal / symbolic string len<=2 (quick) / <=4, text from a pool or symbolic',
         quick=dict(timeout=50, parts=12, reach_timeout=60), thorough=dict(timeout=600, parts=46, reach_timeout=120)),
    dict(name='H2-unpack-values', engine='script', module='verifpw.e2.c02_unpack', function='unpack', reach='unpack_reach',
         functions=['pywbem._tupleparse:TupleParser.unpack_numeric', 'pywbem._tupleparse:TupleParser.unpack_boolean',
                    'pywbem._tupleparse:TupleParser.unpack_char16', 'pywbem._cim_types:CIMInt.__new__'],
         stubs=['re.Pattern.match -> sre_parse matcher', 'int()/float() -> grammar contracts (float value over-approximated by a free real)', '_format -> constant', 'warnings.warn -> no-op'],
         bounds='ALL strings of length <=4 (quick) / <=6 (thorough) over ASCII plus 3 non-ASCII code points, 13 kernels (10 numeric types, untyped, boolean, char16)',
         quick=dict(timeout=150, parts=13), thorough=dict(timeout=3000, parts=13)),
    dict(name='H3-operation-replies', engine='crosshair', module='c02_replies', function='op_reply', reach='op_reply_reach',
         functions=['pywbem._cim_operations:WBEMConnection._imethodcall', 'pywbem._cim_operations:WBEMConnection._methodcall',
                    'pywbem._cim_operations:WBEMConnection._get_rslt_params', 'pywbem._cim_operations:WBEMConnection.GetInstance',
                    'pywbem._cim_operations:WBEMConnection.OpenQueryInstances', 'pywbem._cim_operations:WBEMConnection.InvokeMethod'],
         stubs=['wbem_request (HTTP) -> constant bytes', 'xml_to_tupletree_sax (expat) -> symbolic reply tuple tree', '_format -> constant',
                'replay: real XML bytes through a scripted requests adapter'],
         bounds='24 public operations x reply shapes (ERROR with symbolic CODE/DESCRIPTION, IRETURNVALUE with 0..2 children of 12 kinds, RETURNVALUE/PARAMVALUE with '
                'symbolic PARAMTYPE/value, EndOfSequence/EnumerationContext symbolic, wrong response name)',
         quick=dict(timeout=60, parts=12, reach_timeout=60), thorough=dict(timeout=600, parts=24, reach_timeout=120)),
    dict(name='H3b-reply-shapes', engine='crosshair', module='c02_replies', function='op_shape', reach='op_shape_reach',
         functions=['pywbem._cim_operations:WBEMConnection.EnumerateInstances', 'pywbem._cim_operations:WBEMConnection._get_objects_from_tuples',
                    'pywbem._cim_operations:WBEMConnection._get_returned_objects', 'pywbem._cim_operations:WBEMConnection._get_rslt_params'],
         stubs=['as H3', 'selectors realised, then the operation runs untraced on the reply (solver-enumerated shape space, no symbolic strings)'],
         bounds='EVERY combination of 24+ operations x reply kind (ERROR / IRETURNVALUE / RETURNVALUE+PARAMVALUE) x 0..2 children x 13 child element kinds x response name right/wrong x '
                'EndOfSequence / EnumerationContext / parameter value from small literal pools (one of the three varied at a time, with at most one INSTANCE child)',
         quick=dict(timeout=120, parts=14, reach_timeout=60, reach_parts=14), thorough=dict(timeout=600, parts=14, reach_timeout=60, reach_parts=14)),
    dict(name='H5-http-status-headers', engine='crosshair', module='c02_replies', function='http_reply', reach='http_reply_reach',
         functions=['pywbem._cim_http:wbem_request'],
         stubs=['requests.Session.post -> stub response with symbolic status/reason/headers', '_format -> constant'],
         bounds='status 100..599, reason len<=2, WWW-Authenticate len<=4 (quick) / <=6, Content-type/CIMError/PGErrorDetail/WBEMServerResponseTime optional len<=2',
         quick=dict(timeout=90), thorough=dict(timeout=900)),
]
CLAIM = dict(
    engine='crosshair + own AST->z3 interpreter',
    technique='bounded symbolic execution of the real response parser and operation result checks on symbolic reply trees/headers (CrossHair/z3); exhaustive symbolic interpretation of the value unpackers for all strings up to length L (E2)',
    text='Only pywbem.Error subclasses may escape: the real TupleParser, the per-operation result checks and the HTTP status/header checks are executed on symbolic '
         'replies (structure selectors over the DTD vocabulary, symbolic attribute/text strings, symbolic status codes and headers); the text-to-value unpackers are '
         'interpreted for every string up to the bound. ParseErrors must carry request and response data.',
    note='Trusted: CrossHair/z3, E2 interpreter (cross-checked natively per path). Outside: byte-level well-formedness / UTF-8 diagnosis (expat, C code); replies deeper/wider than the bounds; '
         'datetime text (C06). H1/H3 are bug hunting (NO-CEX-IN-BUDGET) unless the evidence says PROVED-IN-BOUNDS.')
