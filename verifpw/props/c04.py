PROPERTY = 'C04'
_F = ['pywbem._cim_operations:WBEMConnection._imethodcall', 'pywbem._cim_operations:WBEMConnection._methodcall',
      'pywbem._cim_operations:WBEMConnection._iparam_objectname', 'pywbem._cim_operations:WBEMConnection._iparam_namespace_from_objectname',
      'pywbem._cim_operations:WBEMConnection.InvokeMethod', 'pywbem._tupleparse:TupleParser.parse_imethodcall',
      'pywbem._tupleparse:TupleParser.parse_methodcall', 'pywbem._tupleparse:TupleParser.parse_iparamvalue', 'pywbem._tupleparse:TupleParser.parse_paramvalue']
_ST = ['HTTP transport -> in-process capture', 'XML text layer -> model X (dom2tt); replay through real toxml()+expat', '_format -> constant',
       'known XML text-layer findings of C01 (TAB/CR/LF) skipped']
HARNESSES = [
    dict(name='H1-seen-by-server', engine='crosshair', module='c04_facade', function='seen_by_server', reach='seen_by_server_reach', functions=_F, stubs=_ST,
         bounds='24 operations x symbolic class name / key / string values (len<=2 quick, <=3), optional namespace (len<=3), tri-state flags, int 0..3, 2 default namespaces',
         quick=dict(timeout=50, parts=24, reach_timeout=60, reach_parts=24), thorough=dict(timeout=600, parts=24, reach_timeout=120, reach_parts=24)),
    dict(name='H1b-invoke-target-seen', engine='crosshair', module='c04_facade', function='invoke_seen', reach='invoke_seen_reach', functions=_F[1:2] + _F[6:7], stubs=_ST,
         bounds='InvokeMethod target as str / CIMClassName / CIMInstanceName x optional namespace (len<=3) x optional host (len<=2) x 2 default namespaces, symbolic method name',
         quick=dict(timeout=80, parts=6), thorough=dict(timeout=400, parts=6)),
    dict(name='H2-invoke-reply', engine='crosshair', module='c04_facade', function='invoke_reply', reach='invoke_reply_reach',
         functions=['pywbem._cim_operations:WBEMConnection._methodcall', 'pywbem._cim_operations:_cimxml_value', 'pywbem._tupleparse:TupleParser.parse_paramvalue',
                    'pywbem._tupleparse:TupleParser.parse_returnvalue', 'pywbem._cim_obj:CIMParameter.tocimxml'], stubs=_ST,
         bounds='6 return values x pairs of 18 typed output values (booleans, NULL, arrays with NULL entries, references, embedded instances and arrays of them, datetime, empty strings), symbolic parameter name and string',
         quick=dict(timeout=60, parts=9), thorough=dict(timeout=400, parts=18)),
]
CLAIM = dict(
    technique='bounded symbolic execution (CrossHair/z3) of the real client marshalling against pywbem\'s own server-side CIM-XML decoders (differential: supplied vs seen parameters; encoded vs returned method results)',
    text='The request built by the real WBEMConnection code is decoded with the server-side element parsers and must show exactly the operation name, effective namespace and parameter values the caller supplied (None omitted); '
         'InvokeMethod results encoded with pywbem\'s encoders must come back unchanged through the real client path.',
    note='Trusted: CrossHair/z3, model X for the XML text layer, the comparison oracle cimcmp.py. The full loop through a repository (result objects of intrinsic operations) is represented by its two halves: '
         'request decoding here and object encoding/decoding in C01; sequences of operations are outside the bound.')
