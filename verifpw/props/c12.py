PROPERTY = 'C12'
_F = ['pywbem_mock._resolvermixin:ResolverMixin._resolve_class', 'pywbem_mock._resolvermixin:ResolverMixin._resolve_objects',
      'pywbem_mock._resolvermixin:ResolverMixin._set_new_object', 'pywbem_mock._resolvermixin:ResolverMixin._resolve_qualifiers',
      'pywbem_mock._baseprovider:BaseProvider.get_class', 'pywbem_mock._mainprovider:MainProvider.GetClass', 'pywbem_mock._mainprovider:MainProvider.EnumerateClasses',
      'pywbem_mock._mainprovider:MainProvider.EnumerateClassNames', 'pywbem_mock._mainprovider:MainProvider.DeleteClass',
      'pywbem_mock._mainprovider:MainProvider.EnumerateInstances', 'pywbem_mock._mainprovider:MainProvider._get_subclass_names']
HARNESSES = [
    dict(name='H-hierarchy-vs-reference-resolver', engine='crosshair', module='c12_classes', function='hierarchy', reach='hierarchy_reach', functions=_F,
         stubs=['selectors realised, then the mock stack runs untraced (native speed)', 'fresh FakedWBEMConnection per path'],
         bounds='6 forest shapes over 5 classes (chains to depth 5, fan-out to 4, two trees), per-class override bits for properties and methods (overrides reach the farthest ancestor), 8 qualifier/flavor sets, '
                '3 creation orders/ways (MOF, CreateClass top-down, CreateClass with siblings reversed), every target class, tri-state request flags, 5 PropertyList shapes, DeleteClass of leaf/inner class',
         quick=dict(timeout=70, parts=15, reach_timeout=60, reach_parts=15), thorough=dict(timeout=900, parts=30, reach_timeout=60, reach_parts=30)),
]
CLAIM = dict(
    technique='solver-driven exploration (CrossHair/z3 enumerating a symbolic selector space of forests, override patterns, flavors, creation orders and request flags) against a reference resolver written from the property text',
    text='Class forests generated from symbolic selectors are built on the real mock server; GetClass(LocalOnly=False) must expose exactly own and inherited elements with class_origin = first introducer and propagated flags as stated, '
         'ToSubclass qualifiers must follow the nearest declaration; request flags may only remove information; EnumerateClasses/ClassNames/Instances and DeleteClass must mirror the subtree computed from the parent indices.',
    note='Trusted: CrossHair/z3 as enumerator; the reference resolver in the harness demands only what the property states (the propagated flag of overriding elements and the exact effect of LocalOnly=True are left open). '
         'Forests beyond the 6 shapes / 5 classes are outside the bound.')
