PROPERTY = 'C19'
_F = ['pywbem._recorder:LogOperationRecorder.stage_http_request', 'pywbem._recorder:LogOperationRecorder.stage_http_response2',
      'pywbem._recorder:LogOperationRecorder.stage_pywbem_result', 'pywbem._recorder:LogOperationRecorder.stage_pywbem_args',
      'pywbem._recorder:TestClientRecorder.record', 'pywbem._cim_http:wbem_request', 'pywbem._cim_operations:WBEMConnection.operation_recorder_stage_result',
      'pywbem._logging:configure_logger', 'pywbem._statistics:Statistics.stop_timer', 'pywbem._cim_operations:WBEMConnection.__repr__']
HARNESSES = [
    dict(name='H1-differential-observers', engine='crosshair', module='c19_observers', function='differential', reach='differential_reach', functions=_F,
         stubs=['HTTP transport -> scripted requests adapter that checks the Authorization header and returns success / CIM error / ill-formed XML / invalid UTF-8 / HTTP 500 / connection error',
                'log handler -> capturing handler', 'selectors realised, then the operation runs untraced'],
         bounds='7 operations x 6 server behaviours x logger none/api/http/all x 9 detail levels (all, paths, summary, integer maximum lengths 0..333) x TestClientRecorder on/off x statistics on/off x debug on/off',
         quick=dict(timeout=80, parts=7, reach_timeout=60, reach_parts=7), thorough=dict(timeout=600, parts=7, reach_timeout=60, reach_parts=7)),
    dict(name='H2-truncation-kernels', engine='crosshair', module='c19_observers', function='truncate', reach='truncate_reach', functions=_F[:4],
         stubs=['log handler -> formatting null handler'],
         bounds='5 stage methods x 4 payloads (ASCII, multi-byte UTF-8 incl. astral, empty) x SYMBOLIC integer maximum length 0..40 or named level',
         quick=dict(timeout=90), thorough=dict(timeout=300)),
]
CLAIM = dict(
    technique='solver-driven exploration (CrossHair/z3) of observer configurations: differential run of the real operation with and without observers against a scripted server; symbolic maximum length on the truncation kernels',
    text='For every selector-chosen operation, server behaviour and observer configuration the outcome (value or exception type/status) with observers must equal the bare outcome; the request on the wire must be the same; '
         'statistics count the operation exactly once; last_raw_request/reply are set from the bytes exchanged; the password never appears in captured log records, recorder output, str() or repr(). '
         'The LogOperationRecorder stage methods are executed with a symbolic integer maximum length on multi-byte payloads and must not raise.',
    note='Trusted: CrossHair/z3 as enumerator (operations run untraced), the scripted server. Log destinations (file/stderr) are replaced by a capturing handler; configure_logger itself is real.')
