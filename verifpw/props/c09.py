PROPERTY = 'C09'
HARNESSES = [
    dict(name='H1-string-literal-decoder', engine='script', module='verifpw.e2.c09_strings', function='literal', reach='literal_reach',
         functions=['pywbem._mof_compiler:_fixStringValue'],
         stubs=['lexer token pattern stringvalue_re as precondition (sre_parse matcher)', 'str.upper/isdigit, chr, <<, | contracts', 'reference decoder verifpw/e2/refs.py'],
         bounds='every string token (as accepted by the lexer pattern) of total length <=5 (quick) / <=7 over ASCII + 3 non-ASCII code points; plus every token "\\\\x" + 1..5 (quick) / 1..6 characters from hex digits, G, blank',
         quick=dict(timeout=200, parts=1), thorough=dict(timeout=1500, parts=1)),
    dict(name='H1b-namespace-pragma', engine='script', module='verifpw.e2.c09_pragma', function='pragma', reach='pragma_reach',
         functions=['pywbem._mof_compiler:p_compilerDirective'],
         stubs=['PLY production -> stub object', 're.Pattern.match with groups -> sre_parse matcher', 'MOFParseError built without token position'],
         bounds='every pragma parameter string of length 0..3 (quick) / 0..5 over ASCII',
         quick=dict(timeout=150, parts=1), thorough=dict(timeout=1500, parts=1)),
    dict(name='H2-compiler-totality-and-reuse', engine='crosshair', module='c09_compiler', function='total', reach='total_reach',
         functions=['pywbem._mof_compiler:MOFCompiler.compile_string', 'pywbem._mof_compiler:MOFCompiler.compile_file', 'pywbem._mof_compiler:p_compilerDirective',
                    'pywbem._mof_compiler:p_mp_createClass', 'pywbem._mof_compiler:p_mp_createInstance', 'pywbem._mof_compiler:p_mp_setQualifier',
                    'pywbem._mof_compiler:MOFCompiler.compile_embedded_value', 'pywbem._mof_compiler:_find_column', 'pywbem._mof_compiler:_get_error_context'],
         stubs=['repository handle that fails with CIMError(code) at call index k', 'selectors realised, then the compiler runs untraced (PLY lexing is C-level re)', 'nested include files in a temporary directory'],
         bounds='26 failing MOF inputs (token-level mutations, pragmas, include structure incl. self-include and error after/inside nested files, embedded-instance MOF, aliases, huge numbers, bad escapes) + the valid MOF, '
                'with/without declarations prefix, from string or file, repository fault at call index 0..6 with status code 1..28, then a valid compile on the SAME compiler',
         quick=dict(timeout=80, parts=9, reach_timeout=60, reach_parts=9), thorough=dict(timeout=600, parts=27, reach_timeout=60, reach_parts=27)),
    dict(name='H2b-repository-faults', engine='crosshair', module='c09_compiler', function='faults', reach='faults_reach',
         functions=['pywbem._mof_compiler:p_mp_createClass', 'pywbem._mof_compiler:p_mp_createInstance', 'pywbem._mof_compiler:p_mp_setQualifier', 'pywbem._mof_compiler:MOFCompiler.find_mof'],
         stubs=['as H2'], bounds='the valid MOF x EVERY repository fault: call index 0..6 x status code 1..28 x prefix x string/file x second compile (1 568 scenarios, exhausted)',
         quick=dict(timeout=120, parts=14, reach_timeout=60, reach_parts=14), thorough=dict(timeout=400, parts=14, reach_timeout=60, reach_parts=14)),
]
CLAIM = dict(
    engine='own AST->z3 interpreter + crosshair',
    technique='symbolic interpretation (z3) of the string-literal decoder and the pragma action for all token/parameter strings up to length L; solver-enumerated failing inputs x repository fault schedules on the real compiler',
    text='The escape decoder is interpreted on every string the lexer accepts as a string token (within the bound): only MOFCompileError may be raised and the result must equal the DSP0004 decoding; the namespace pragma action is interpreted for every parameter string; '
         'the real compiler is run on a pool of failing inputs combined with repository faults (symbolic call index and status code): only MOFCompileError (OSError for a missing file) may escape, its line/column/file must lie inside the offending input, '
         'and the same compiler object must afterwards compile valid MOF to the same objects as a fresh compiler.',
    note='Trusted: z3, the E2 interpreter (cross-checked natively), CrossHair as enumerator. Arbitrary text through the PLY lexer/LALR tables is not encoded (C-level regex on the whole text); the claim covers the semantic actions and the listed inputs.')
