PROPERTY = 'C13'
_F = ['pywbem_mock._mainprovider:MainProvider._get_reference_instnames', 'pywbem_mock._mainprovider:MainProvider._get_associated_instancenames',
      'pywbem_mock._mainprovider:MainProvider.ReferenceNames', 'pywbem_mock._mainprovider:MainProvider.References',
      'pywbem_mock._mainprovider:MainProvider.AssociatorNames', 'pywbem_mock._mainprovider:MainProvider.Associators',
      'pywbem_mock._mainprovider:MainProvider._subclasses_lc', 'pywbem_mock._instancewriteprovider:InstanceWriteProvider.find_multins_association_ref_namespaces']
HARNESSES = [
    dict(name='H-graph-vs-adjacency', engine='crosshair', module='c13_assoc', function='graph', reach='graph_reach', functions=_F,
         stubs=['selectors realised, then the mock stack runs untraced (native speed)', 'pre-state restored by un-pickling'],
         bounds='up to 3 association instances, each of 4 classes (binary, its subclass, ternary, binary with optional/NULL ends) with any end points among 4 nodes (incl. both ends the same node); '
                'every source node; AssocClass/ResultClass (6/4 values incl. subclass and case variants), Role/ResultRole (8 values incl. case variants and an unknown name)',
         quick=dict(timeout=70, parts=12, reach_timeout=60, reach_parts=12), thorough=dict(timeout=900, parts=24, reach_timeout=60, reach_parts=24)),
    dict(name='H2-history-independence', engine='crosshair', module='c13_assoc', function='history', reach='history_reach', functions=_F,
         stubs=['selectors realised, then the mock stack runs untraced (native speed)', 'pre-state restored by un-pickling'],
         bounds='0..1 pre-existing association instance (any of the 501 slot codes), every source node, AssocClass/ResultClass filters (6/4 values), with or without a first (warming) query, '
                'then one of 5 repository changes (new association subclass + instance, new node subclass / sub-subclass + linked instance, delete an association instance, add a subclass instance), then the four traversal operations',
         quick=dict(timeout=60, parts=20, reach_timeout=40, reach_parts=20), thorough=dict(timeout=600, parts=20, reach_timeout=60, reach_parts=20)),
]
CLAIM = dict(
    technique='solver-driven exploration (CrossHair/z3 enumerating symbolic adjacency/filter selectors) of the real association operations against the result computed directly from the adjacency',
    text='Association instances generated from symbolic slot codes are created on the real mock server; for a symbolic source and filter combination Associators/AssociatorNames/References/ReferenceNames must equal what the stored '
         'instances imply per the property text, Names must equal the paths of the full results, filters may only remove results, the relation must be symmetric, and reading must not change later results. '
         'H2: after a query and a repository change (new subclasses, added/deleted association instances) the answers must equal those of a fresh server holding the same final repository and must reflect the change.',
    note='Trusted: CrossHair/z3 as enumerator (the mock stack runs untraced). Class-level traversal, cross-namespace associations and graphs with more than 3 association instances are outside the bound of this harness.')
