PROPERTY = 'C07'
HARNESSES = [
    dict(name='H1-roundtrip-and-canonical', engine='crosshair', module='c07_uri', function='roundtrip', reach='roundtrip_reach',
         functions=['pywbem._cim_obj:CIMInstanceName.to_wbem_uri', 'pywbem._cim_obj:CIMInstanceName.from_wbem_uri', 'pywbem._cim_obj:CIMClassName.to_wbem_uri',
                    'pywbem._cim_obj:CIMClassName.from_wbem_uri', 'pywbem._cim_obj:_kbstr_to_cimval', 'pywbem._cim_obj:_real_to_wbem_uri'],
         stubs=['selectors realised, then the URI code runs untraced (regexes are C-level)', '_format -> constant'],
         bounds='15 key kinds/values (strings, ints at limits, booleans, reals incl. exponent forms / INF, CIM-typed numbers, char16) x 12 awkward strings x 6 host forms x 4 namespaces x nested reference depth 0..2 (quick) / 0..3 '
                'x 3 formats x case-flipped / key-reordered twin x class paths',
         quick=dict(timeout=70, parts=15, reach_timeout=50, reach_parts=15), thorough=dict(timeout=600, parts=15, reach_timeout=60, reach_parts=15)),
    dict(name='H3-parser-totality', engine='crosshair', module='c07_uri', function='parse', reach='parse_reach',
         functions=['pywbem._cim_obj:CIMInstanceName.from_wbem_uri', 'pywbem._cim_obj:CIMClassName.from_wbem_uri', 'pywbem._cim_obj:_kbstr_to_cimval'],
         stubs=['_format -> constant', 're.error raised by CrossHair\'s symbolic regex support is ignored (engine artefact, not reproducible natively)'],
         bounds='10 URI prefixes + symbolic text of length <=2 (quick) / <=4 + 4 suffixes, instance and class path parser (traced: CrossHair regex model on symbolic strings)',
         quick=dict(timeout=60, parts=10, reach_timeout=40, reach_parts=10), thorough=dict(timeout=600, parts=10, reach_timeout=60, reach_parts=10)),
    dict(name='H4-real-literals', engine='script', module='verifpw.e2.c07_realval', function='realval', reach='realval_reach',
         functions=['pywbem._utils:_realValue_to_float'],
         stubs=['re.Pattern.match -> sre_parse matcher incl. CPython IGNORECASE extra cases', 'float(str) grammar contract', 'reference grammar verifpw/e2/refs.py'],
         bounds='ALL strings of length <=5 (quick) / <=7 over ASCII plus 5 non-ASCII code points (incl. those IGNORECASE folds onto i/s/k)',
         quick=dict(timeout=120, parts=1), thorough=dict(timeout=1500, parts=4)),
    dict(name='H4-integer-literals', engine='script', module='verifpw.e2.c20_intval', function='intval', reach='intval_reach',
         functions=['pywbem._utils:_integerValue_to_int'], stubs=['as C20-H3'],
         bounds='ALL strings of length <=4 (quick) / <=6 over U+0001..U+10FFFF without surrogates',
         quick=dict(timeout=120, parts=1), thorough=dict(timeout=1500, parts=7)),
]
CLAIM = dict(
    engine='crosshair + own AST->z3 interpreter',
    technique='solver-enumerated path shapes through the real URI printer/parser (round trip, canonical form); symbolic interpretation of the DSP0004 numeric literal readers against reference grammars for all strings up to length L; bounded symbolic execution of the parser on symbolic text',
    text='Paths built from selectors must survive to_wbem_uri/from_wbem_uri in the standard, canonical and historical formats up to the documented untyped-URI limits; case/order twins must share the canonical URI while a differing string key value must not; '
         'the numeric literal readers are decided against reference grammars for every string within the bound; from_wbem_uri on symbolic text may only raise ValueError.',
    note='Trusted: z3, E2 interpreter, CrossHair (its regex model for H3). String key values come from a pool (regexes are C code); URIs longer than the bounds are outside the claim.')
