PROPERTY = 'C10'
_F = ['pywbem_mock._providerdispatcher:ProviderDispatcher.CreateInstance', 'pywbem_mock._providerdispatcher:ProviderDispatcher.ModifyInstance',
      'pywbem_mock._providerdispatcher:ProviderDispatcher.DeleteInstance', 'pywbem_mock._instancewriteprovider:InstanceWriteProvider.CreateInstance',
      'pywbem_mock._instancewriteprovider:InstanceWriteProvider.ModifyInstance', 'pywbem_mock._instancewriteprovider:InstanceWriteProvider.add_new_instance',
      'pywbem_mock._mainprovider:MainProvider.GetInstance', 'pywbem_mock._mainprovider:MainProvider.EnumerateInstances',
      'pywbem_mock._mainprovider:MainProvider.EnumerateInstanceNames', 'pywbem_mock._inmemoryrepository:InMemoryObjectStore.create',
      'pywbem_mock._inmemoryrepository:InMemoryObjectStore.update']
HARNESSES = [
    dict(name='H1-step-vs-reference-map', engine='crosshair', module='c10_store', function='step', reach='step_reach', functions=_F,
         stubs=['_format -> constant', 'pre-state restored by un-pickling the repository', 'selectors realised, then the mock stack runs untraced (native speed)'],
         bounds='pre-state = any subset of a pool of 5 instances (2 namespaces, class + subclass + second class); one operation of 6 kinds; target = pool entry / unknown key / unknown class / '
                'unknown namespace; lexical-case variants of class, key and namespace names; 7 PropertyList shapes; value at type limits; in-place mutation of passed-in and returned objects afterwards',
         quick=dict(timeout=80, parts=12, reach_timeout=60, reach_parts=12), thorough=dict(timeout=900, parts=12, reach_timeout=60, reach_parts=12)),
]
CLAIM = dict(
    technique='solver-driven exploration (CrossHair/z3 enumerating a symbolic selector space) of one real mock-server operation from an arbitrary reachable store state against a reference keyed map (inductive step)',
    text='From every subset pre-state of an instance pool, one operation with selector-chosen arguments (existing / missing / duplicate / case-variant path, unknown class or namespace, PropertyList shapes) is executed on the real FakedWBEMConnection; '
         'result, CIM status code and the complete store content must equal a reference dict keyed case-insensitively; objects passed in and handed out are then mutated in place and the store must be unaffected.',
    note='Trusted: CrossHair/z3 as enumerator of the selector space (the mock stack itself runs untraced after the selectors are realised: tracing it costs seconds per path). The step covers histories of any length '
         'as far as every reachable state is a subset state of the pool; schemas beyond the 3 classes and more than 5 instances are outside the bound.')
