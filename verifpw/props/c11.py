PROPERTY = 'C11'
_F = ['pywbem_mock._wbemconnection_mock:FakedWBEMConnection.compile_mof_string', 'pywbem_mock._wbemconnection_mock:FakedWBEMConnection.add_cimobjects',
      'pywbem_mock._mainprovider:MainProvider.CreateClass', 'pywbem_mock._mainprovider:MainProvider.ModifyClass', 'pywbem_mock._mainprovider:MainProvider.DeleteClass',
      'pywbem_mock._instancewriteprovider:InstanceWriteProvider.create_multi_namespace_instance',
      'pywbem_mock._instancewriteprovider:InstanceWriteProvider.modify_multi_namespace_instance',
      'pywbem_mock._namespaceprovider:CIMNamespaceProvider.DeleteInstance', 'pywbem_mock._providerdispatcher:ProviderDispatcher.CreateInstance']
HARNESSES = [
    dict(name='H-failed-call-changes-nothing', engine='crosshair', module='c11_atomic', function='fail_step', reach='fail_step_reach', functions=_F,
         stubs=['pre-state restored by un-pickling one of 2 repository snapshots', 'selectors realised, then the mock stack runs untraced (native speed)',
                'minimal CIM_Namespace/CIM_ObjectManager classes instead of the DMTF schema for the namespace provider'],
         bounds='15 repository-changing calls x 2 pre-states x batch size 1..3 (quick) / 1..4 with the invalid element at every position k x 8 failure reasons x 3 target namespaces (one missing)',
         quick=dict(timeout=60, parts=15, reach_timeout=60, reach_parts=15), thorough=dict(timeout=300, parts=15, reach_timeout=60, reach_parts=15)),
]
CLAIM = dict(
    technique='solver-driven exploration (CrossHair/z3 enumerating the symbolic fault position / reason / call selector space) of one failing repository call with a full repository dump comparison',
    text='For every repository-changing call, fault position k of a batch, failure reason, target namespace and pre-state chosen by symbolic selectors, the real FakedWBEMConnection call is executed; whenever it raises, '
         'the complete dump (namespaces, classes, qualifier types, instances as MOF) must equal the dump before the call.',
    note='Trusted: CrossHair/z3 as enumerator; the mock stack runs untraced after the selectors are realised. compile_mof_file/compile_schema_classes go through the same code as compile_mof_string and are not driven separately; '
         'batches longer than 4 are outside the bound.')
