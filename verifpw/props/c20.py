PROPERTY = 'C20'
_VM = ['pywbem._valuemapping:ValueMapping._create_for_element', 'pywbem._valuemapping:ValueMapping._values_tuple',
       'pywbem._valuemapping:ValueMapping._tovalues_single', 'pywbem._valuemapping:ValueMapping.tovalues',
       'pywbem._valuemapping:ValueMapping.tobinary']
HARNESSES = [
    dict(name='H1-ranges', engine='script', module='verifpw.e2.c20_vm', function='ranges', reach='ranges_reach', functions=_VM,
         stubs=['ValueMapping._to_int -> symbolic integer of the token (notations are H3)', '_format -> constant',
                'dict literals -> association lists (look-ups fork on key equality)'],
         bounds='quick: ValueMaps of <=3 entries (uint8) / <=2 (sint8,uint16,sint64), every shape tuple of {k, lo..hi, lo.., ..hi, ..}, '
                'ALL integers in the entries and ALL element values of the type; thorough: <=4 entries uint8, <=3 for all 8 types',
         quick=dict(timeout=120, parts=8), thorough=dict(timeout=1500, parts=15)),
    dict(name='H3-integer-notations', engine='script', module='verifpw.e2.c20_intval', function='intval', reach='intval_reach',
         functions=['pywbem._utils:_integerValue_to_int'],
         stubs=['re.Pattern.match -> backtracking matcher over the sre_parse tree', 'int(str, base) -> grammar contract'],
         bounds='ALL strings of length <=4 (quick) / <=6 (thorough) over U+0001..U+10FFFF without surrogates',
         quick=dict(timeout=120, parts=1), thorough=dict(timeout=1500, parts=7)),
    dict(name='H4-sizes', engine='crosshair', module='c20_sizes', function='sizes', reach='sizes_reach',
         functions=['pywbem._valuemapping:ValueMapping.for_property', 'pywbem._valuemapping:ValueMapping._create_for_element'],
         stubs=['_format -> constant', 'connection -> stub with GetClass()'],
         bounds='len(Values) 0..4, len(ValueMap) 0..4 or absent, values_default given or not, probe value 0..5',
         quick=dict(timeout=90), thorough=dict(timeout=300)),
]
CLAIM = dict(
    engine='own AST->z3 symbolic interpreter (E2) + crosshair',
    technique='symbolic interpretation of the real ValueMapping source on z3 (unbounded integers, all ValueMap shape tuples up to N entries); differential check of the integer-literal parser against a DSP0004 reference for all strings up to length L',
    text='The real table construction and look-up code is interpreted symbolically from the current source for every tuple of ValueMap entry shapes with '
         'unbounded symbolic integers, and each path outcome is checked against the DSP0004 resolution rule by z3; tobinary(tovalues(v)) must contain v. '
         'The integer-literal reader is compared with a reference written from the DSP0004 grammar on all strings up to the bound; size reconciliation is '
         'explored with CrossHair through the public for_property().',
    note='Trusted: z3, the E2 interpreter (cross-checked against native runs of the real function on a model of each explored path, up to 300 per run), '
         'the regex/int() contracts, the reference functions in verifpw/e2/refs.py. Outside: ValueMaps longer than the bound; overlapping ranges are accepted in any order the property allows.')
