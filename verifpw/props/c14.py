PROPERTY = 'C14'
_F = ['pywbem_mock._mainprovider:MainProvider._pull_response', 'pywbem_mock._mainprovider:MainProvider._open_response',
      'pywbem_mock._mainprovider:MainProvider.CloseEnumeration',
      'pywbem._cim_operations:WBEMConnection._get_rslt_params', 'pywbem._cim_operations:_validate_context',
      'pywbem._cim_operations:_validate_MaxObjectCount_OpenPull']
HARNESSES = [
    dict(name='H1-pull-step', engine='crosshair', module='c14_pull', function='pull_step', reach='pull_step_reach',
         functions=_F[:1], stubs=['_format -> constant', 'namespace validation -> boolean ns_ok'],
         bounds='remaining objects 1..5 (quick) / 1..8 (thorough), second session 1..2, MaxObjectCount any int >= 0 or None (unbounded), server default batch size any int >= 1 (unbounded)',
         quick=dict(timeout=90, parts=9), thorough=dict(timeout=600, parts=9)),
    dict(name='H1-open-step', engine='crosshair', module='c14_pull', function='open_step', reach='open_step_reach',
         functions=_F[1:2], stubs=['_format -> constant', '_create_contextid -> counter', 'perf_counter real'],
         bounds='result size 0..5 (quick) / 0..8 (thorough), MaxObjectCount any int >= 0 or None (unbounded), server default batch size any int >= 1 (unbounded), 0..2 pre-existing contexts',
         quick=dict(timeout=90, parts=3), thorough=dict(timeout=600, parts=9)),
    dict(name='H1-close-step', engine='crosshair', module='c14_pull', function='close_step', reach='close_step_reach',
         functions=_F[2:3], stubs=['_format -> constant'],
         bounds='0..3 contexts, context id in/out of table, pull disabled or not',
         quick=dict(timeout=60), thorough=dict(timeout=300)),
    dict(name='H2-client-step', engine='crosshair', module='c14_pull', function='client_step', reach='client_step_reach',
         functions=_F[3:6], stubs=['_format -> constant'],
         bounds='open/pull reply with EndOfSequence absent or one of 8 spellings, EnumerationContext absent / NULL / any string len<=3, '
                '0..3 objects, all 6 orders of the three reply items, namespace any string len<=3; MaxObjectCount any int or None (unbounded); 5 malformed context shapes',
         quick=dict(timeout=90, parts=6), thorough=dict(timeout=300, parts=6)),
]
CLAIM = dict(
    technique='bounded symbolic execution (CrossHair/z3) of the real server-side pull step from an arbitrary context-table state (inductive step)',
    text='One Open/Pull/Close step of the real MainProvider code is executed symbolically from an arbitrary context table '
         '(remaining objects 1..8, MaxObjectCount unbounded, any pull type, own/foreign/stale context, namespace gone or not); '
         'every feasible path is explored and the post-state is compared with the sequence semantics of the property. '
         'Because the step preserves the representation invariant it covers sessions of any length. '
         'H2 does the same for the client half: the real _get_rslt_params/_validate_context/_validate_MaxObjectCount_OpenPull '
         'on every reply shape (eos, context and objects are handed to the caller exactly as sent; context dropped iff eos).',
    note='Trusted: CrossHair/z3; _format stubbed; namespace validation and context-id generation replaced by stubs; '
         'bounds as listed per harness in the evidence; counterexamples are replayed natively before being reported.')
