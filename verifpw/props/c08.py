PROPERTY = 'C08'
HARNESSES = [
    dict(name='H1-literal-decoder', engine='script', module='verifpw.e2.c09_strings', function='literal', reach='literal_reach',
         functions=['pywbem._mof_compiler:_fixStringValue'],
         stubs=['lexer token pattern as precondition', 'reference DSP0004 decoder verifpw/e2/refs.py'],
         bounds='every string token of total length <=5 (quick) / <=7 plus the hex-escape kernel (see C09-H1): the compiled string equals the DSP0004 reading of the literal',
         quick=dict(timeout=200, parts=1), thorough=dict(timeout=1500, parts=1)),
    dict(name='H2-fold-positions', engine='crosshair', module='c08_tomof', function='fold', reach='fold_reach',
         functions=['pywbem._cim_obj:mofstr', 'pywbem._cim_obj:_mof_escaped', 'pywbem._cim_obj:_mof_safe_split_pos'],
         stubs=['selectors realised, then mofstr() runs untraced', 'tokens recognised with the lexer\'s own stringvalue_re', 'reference decoder for the parts'],
         bounds='value = filler[0..130] + special + optional second special + filler[0..130] (one long word, or with blanks), 12 specials (control chars, quote, apostrophe, backslash, astral, literal "\\\\x41"), '
                'maxline 40..120, indent 0..16, line_pos 0..40, end_space 0..3',
         quick=dict(timeout=50, parts=12, reach_timeout=40, reach_parts=12), thorough=dict(timeout=900, parts=12, reach_timeout=60, reach_parts=12)),
    dict(name='H3-object-roundtrip', engine='crosshair', module='c08_tomof', function='objects', reach='objects_reach',
         functions=['pywbem._cim_obj:CIMClass.tomof', 'pywbem._cim_obj:CIMInstance.tomof', 'pywbem._cim_obj:CIMQualifierDeclaration.tomof', 'pywbem._cim_obj:CIMProperty.tomof',
                    'pywbem._cim_obj:mofval', 'pywbem._mof_compiler:p_propertyDeclaration_2', 'pywbem._mof_compiler:p_instanceDeclaration', 'pywbem._mof_compiler:p_qualifierDeclaration'],
         stubs=['selectors realised, then tomof() and the real MOFCompiler run untraced (PLY lexing is C-level re)'],
         bounds='class / instance (with explicit NULL over a class default) / qualifier declaration x 15 typed boundary values x 12 awkward strings x scalar/array x NULL x default present x maxline 40..100 x 0..3 qualifiers',
         quick=dict(timeout=55, parts=15, reach_timeout=40, reach_parts=15), thorough=dict(timeout=600, parts=15, reach_timeout=60, reach_parts=15)),
]
CLAIM = dict(
    engine='own AST->z3 interpreter + crosshair',
    technique='symbolic interpretation of the literal decoder against the DSP0004 reading for all tokens up to length L; solver-enumerated fold positions and object shapes through the real tomof() and MOFCompiler',
    text='Literal decoding is decided for every string token within the bound; folding is explored over symbolic positions of escape-producing characters, widths and indents (parts must be string tokens whose decodings concatenate to the original); '
         'tomof() output of classes, instances and qualifier declarations built from selectors must compile to equal names, types, array shape, values and qualifiers.',
    note='Trusted: z3, the E2 interpreter, CrossHair as enumerator. maxline < 40, embedded-instance values deeper than one level and schemas beyond the generated shapes are outside the bound.')
