PROPERTY = 'C16'
_F = ['pywbem._listener:WBEMListener.start', 'pywbem._listener:WBEMListener.stop', 'pywbem._listener:WBEMListener._stop_indication_delivery',
      'pywbem._listener:WBEMListener._stop_listener_threads', 'pywbem._listener:WBEMListener._callback_run', 'pywbem._listener:WBEMListener._handle_indication',
      'pywbem._listener:WBEMListener._deliver_indication_to_callbacks', 'pywbem._listener:WBEMListener.ind_queue_size', 'pywbem._listener:ListenerRequestHandler.do_POST',
      'pywbem._listener:ThreadedHTTPServer']
_STUBS = ['queue.Queue -> FIFO model (put/get/empty/qsize/task_done, maxsize, Full/Empty, blocking get enabled only when non-empty, timed get may raise Empty at any time)',
          'threading: CallbackThread/ExceptionHandlingThread/StoppableThread contract (start, stop event, join blocks until the thread ended and re-raises its stored exception)',
          'HTTP server: make_server/ServerThread/shutdown/server_close -> state machine; server_close() joins in-flight request threads iff block_on_close and not daemon_threads (read from the real ThreadedHTTPServer class)',
          'request handler: only the tail of do_POST after `listener = self.server.listener` is compiled; request parsing is C17', 'logger calls -> arguments evaluated, call is a no-op',
          'callbacks -> two steps (enter, exit); exit may raise an Exception subclass', 'sleep -> step', 'attributes only one thread touches become thread locals',
          'replay: real WBEMListener with real threads; the same operations are yield points driven by a controller (verifpw/bmc/replay16.py)']
HARNESSES = [
    dict(name='H1-interleavings', engine='script', module='verifpw.bmc.c16', function='safety', reach='reach', functions=_F, stubs=_STUBS,
         bounds='configurations senders x indications / callbacks / queue bound / start() calls: quick 1x1/1/unbounded/1, 1x2/2/unbounded/1, 2x1/1/maxsize 1/1, 1x1/1/unbounded/2 (restart) with 4 round-robin rounds, 1x3/1/maxsize 1/1 with 3 rounds '
                '(every schedule in which each thread is scheduled at most 4 times, hence every schedule with <= 3 context switches); thorough adds 1x3 and 2x2 with bounded queues, 3x1 with 2 callbacks, a failing make_server() '
                'and 5 rounds; at most 2 get() timeouts and 2 polling sleeps per run, loops unrolled accordingly (runs beyond are outside the bound and excluded by assumption)',
         quick=dict(timeout=300, parts=5, reach_timeout=120, reach_parts=5), thorough=dict(timeout=3000, parts=13, reach_timeout=600, reach_parts=13)),
]
CLAIM = dict(
    engine='own AST->IR compiler + z3 (QF_BV) round-robin sequentialisation (E3)',
    technique='bounded model checking of thread interleavings: the listener methods are compiled from the current AST into per-thread step programs, the scheduler and the environment choices are symbolic, z3 decides all schedules within the round bound; counterexample schedules are replayed on real threads',
    text='start()/stop()/_stop_indication_delivery/_stop_listener_threads/_callback_run/_handle_indication/_deliver_indication_to_callbacks and the delivery tail of do_POST are compiled from their current source; for every schedule within the bounds: '
         'stop()/start() do not raise, no deadlock, every indication acknowledged with success is delivered exactly once to every callback (in registration order, per sender in order) by the time stop() has returned, a refused indication is never delivered, '
         'no callback thread is left, the listener can be started again. A vacuity twin shows that the clean run is reachable in every configuration.',
    note='Trusted: z3, the IR compiler (divergence between model and real code surfaces on replay as a harness error), the queue/threading/socketserver contracts listed under stubs. '
         'Outside: schedules needing more rounds, more timeouts/polls than the budget, real sockets and TLS, daemon flag of threads at interpreter exit, add_callback concurrent with delivery.')
