PROPERTY = 'C01'
_ENC = ['pywbem._cim_obj:CIMProperty.tocimxml', 'pywbem._cim_obj:CIMQualifier.tocimxml', 'pywbem._cim_obj:CIMParameter.tocimxml',
        'pywbem._cim_obj:CIMMethod.tocimxml', 'pywbem._cim_obj:CIMInstanceName.tocimxml', 'pywbem._cim_obj:CIMClassName.tocimxml',
        'pywbem._cim_obj:CIMInstance.tocimxml', 'pywbem._cim_obj:CIMClass.tocimxml', 'pywbem._cim_obj:CIMQualifierDeclaration.tocimxml',
        'pywbem._cim_types:atomic_to_cim_xml', 'pywbem._cim_xml:_pcdata_nodes', 'pywbem._tupleparse:TupleParser.parse_any',
        'pywbem._tupleparse:TupleParser.unpack_value', 'pywbem._tupleparse:TupleParser.unpack_single_value']
_STUBS = ['XML text layer (minidom.toxml + expat) -> model X (verifpw/xmlmodel.py), validated against the real pipeline at start-up and on replay',
          '_format -> constant', 'CIMDateTime construction/__str__ run untraced on concrete values (CrossHair cannot trace tzinfo subclasses)',
          'numeric/datetime/real values come from a concrete boundary pool chosen by symbolic selectors (formatting is C code)']


def _h(fn, parts, bounds, q=25, t=300):
    return dict(name='H1-' + fn, engine='crosshair', module='c01_roundtrip', function=fn, reach=fn + '_reach',
                functions=_ENC, stubs=_STUBS, bounds=bounds,
                quick=dict(timeout=q, parts=parts[0], reach_timeout=60), thorough=dict(timeout=t, parts=parts[1], reach_timeout=120))


HARNESSES = [
    _h('prop_scalar', (7, 14), 'name len 1..2, string value len<=3 (all code points), class_origin len<=2, 14 types x boundary pool, NULL, 0..2 qualifiers'),
    _h('prop_array', (7, 14), 'array 0..3 entries x NULL mask, array_size unbounded int, string len<=2'),
    _h('prop_ref', (1, 1), 'reference property: value present/absent, host/namespace optional len<=2, reference_class len<=2'),
    _h('instancename', (5, 15), '0..2 keybindings of every type incl. nested reference depth<=2, host/namespace optional'),
    _h('classname', (1, 1), 'classname/host/namespace len<=3'),
    _h('qualifier', (7, 14), 'scalar/array (<=2) of every type, 5 optional flags'),
    _h('qualdecl', (7, 14), 'scalar/array, NULL, array_size unbounded, scopes bitmask 0..255, 4 optional flavors'),
    _h('parameter', (1, 1), 'declaration forms PARAMETER/.ARRAY/.REFERENCE/.REFARRAY, array_size unbounded, 0..2 qualifiers'),
    _h('paramvalue', (7, 14), 'PARAMVALUE of every type, arrays <=2 with NULL mask, references'),
    _h('method', (1, 1), 'return type selector, 0..2 parameters, 0..2 qualifiers, class_origin, propagated'),
    _h('instance', (7, 14), '0..2 properties of every type, NULL property, optional path with host/namespace, qualifier'),
    _h('embedded', (8, 8), 'embedded instance/class as property or PARAMVALUE, scalar/array 0..3 with NULL mask, nesting depth 0..1 (quick) / 0..3 (thorough); inner objects concrete (re-parsed by expat)'),
    _h('klass', (7, 14), '0..2 properties, 0..1 methods, superclass optional, qualifiers 0..2'),
]
CLAIM = dict(
    technique='bounded symbolic execution (CrossHair/z3) of the real tocimxml() encoders and TupleParser over symbolic names, strings, flags and type selectors; XML text layer replaced by a validated normalisation model',
    text='Per CIM element kind, the real encoder and the real parser are executed on symbolic objects (names/strings over all code points within small '
         'length bounds, optional attributes, type selectors over 14 CIM types with boundary values, NULLs and NULL array entries) and the parsed object is '
         'compared attribute by attribute; a second encode/parse must reproduce the same object and the same DOM. Verdict per harness/partition in the evidence.',
    note='Trusted: CrossHair/z3, the XML text-layer model X (checked against minidom+expat on a corpus each run and on every replay), the comparison oracle cimcmp.py. '
         'Real/datetime/integer digit strings come from a concrete pool (their text codecs are C06). Embedded objects: see H3. Bounds per harness in evidence.')
