PROPERTY = 'C17'
_F = ['pywbem._listener:ListenerRequestHandler.do_POST', 'pywbem._listener:ListenerRequestHandler.send_http_error',
      'pywbem._listener:ListenerRequestHandler.send_error_response', 'pywbem._listener:ListenerRequestHandler.send_success_response',
      'pywbem._listener:ListenerRequestHandler.parse_export_request', 'pywbem._listener:ListenerRequestHandler.invalid_method']
HARNESSES = [
    dict(name='H1-post', engine='crosshair', module='c17_listener_http', function='post', reach='post_reach', functions=_F,
         stubs=['handler created without socket; send_response/send_header/end_headers/wfile -> recording stubs', 'listener -> stub with optional queue-full',
                'request body from a pool of 16 (valid / mutated) export requests because expat (C) parses it', '_format -> constant'],
         bounds='16 bodies x symbolic Accept / Accept-Charset / Content-Encoding / Content-Length strings (len<=2 quick, <=4), Accept-Range (len<=1), 6 Content-Type literals with a symbolic 1-char suffix, '
                'Content-Length exact / symbolic / absent, queue full or not',
         quick=dict(timeout=60, parts=16, reach_timeout=60), thorough=dict(timeout=600, parts=16, reach_timeout=60)),
    dict(name='H2-other-verbs', engine='crosshair', module='c17_listener_http', function='verb', reach='verb_reach', functions=_F[5:],
         stubs=['as H1'], bounds='9 HTTP verbs', quick=dict(timeout=40), thorough=dict(timeout=40)),
]
CLAIM = dict(
    technique='bounded symbolic execution (CrossHair/z3) of the real request handler with symbolic header strings and a pool of request bodies; response recorded by stubs',
    text='do_POST of the real handler runs with symbolic header values and every body of a pool of valid and mutated export requests; it must produce exactly one status line and header block, no header value with CR/LF, '
         'a 200 body that parses to an EXPMETHODRESPONSE with a Content-Length equal to the bytes written, success only for a valid indication that was handed to the listener exactly once, ERROR/4xx with a CIMError header otherwise, '
         'and no exception may escape; the other verbs answer 405 with Allow.',
    note='Trusted: CrossHair/z3. Outside: request-line and header parsing by http.server/email, sockets/TLS, survival across several requests on a live server thread (delivery ordering is C16).')
