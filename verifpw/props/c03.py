PROPERTY = 'C03'
_F = ['pywbem._cim_operations:WBEMConnection._imethodcall', 'pywbem._cim_operations:WBEMConnection._methodcall',
      'pywbem._cim_operations:WBEMConnection._iparam_objectname', 'pywbem._cim_operations:WBEMConnection._iparam_propertylist',
      'pywbem._cim_xml:IMETHODCALL', 'pywbem._cim_xml:METHODCALL', 'pywbem._cim_xml:SCOPE', 'pywbem._cim_http:get_cimobject_header',
      'pywbem._cim_obj:tocimxml']
HARNESSES = [
    dict(name='H1-request-dtd', engine='crosshair', module='c03_wire', function='request', reach='request_reach', functions=_F,
         stubs=['wbem_request -> capture of headers (no HTTP)', 'CIM.toxml -> capture of the DOM (serialisation is minidom); replay: real toxml + lxml DTD validation',
                'DTD validator verifpw/dtd.py reading /repo/tests/dtd/DSP0203_2.3.1.dtd', '_format -> constant'],
         bounds='30 operations x symbolic class name / key value / string value (len<=2 quick, <=3) / namespace (len<=3) / host (len<=2), tri-state flag, 4 PropertyList shapes, 2 default namespaces',
         quick=dict(timeout=45, parts=30, reach_timeout=60, reach_parts=30), thorough=dict(timeout=600, parts=30, reach_timeout=120, reach_parts=30)),
    dict(name='H1b-invoke-target', engine='crosshair', module='c03_wire', function='invoke_target', reach='invoke_target_reach', functions=_F[1:2] + _F[7:8],
         stubs=['as H1'], bounds='InvokeMethod target as str / CIMClassName / CIMInstanceName x optional namespace (len<=3) x optional host (len<=2) x 2 default namespaces, symbolic method name',
         quick=dict(timeout=90), thorough=dict(timeout=400)),
    dict(name='H2-object-xml-dtd', engine='crosshair', module='c03_wire', function='objxml', reach='objxml_reach',
         functions=['pywbem._cim_obj:CIMProperty.tocimxml', 'pywbem._cim_obj:CIMQualifierDeclaration.tocimxml', 'pywbem._cim_obj:CIMClass.tocimxml',
                    'pywbem._cim_obj:CIMInstance.tocimxml', 'pywbem._cim_obj:CIMInstanceName.tocimxml', 'pywbem._cim_xml:SCOPE'],
         stubs=['DTD validator verifpw/dtd.py', '_format -> constant'],
         bounds='8 object kinds built as in C01 (14 types x boundary pool, symbolic names/strings len<=2, scopes bitmask, tri-state flag)',
         quick=dict(timeout=60, parts=8), thorough=dict(timeout=400, parts=8)),
    dict(name='H3-listener-responses', engine='crosshair', module='c03_wire', function='listener_response', reach='listener_response_reach',
         functions=['pywbem._listener:ListenerRequestHandler.send_error_response', 'pywbem._listener:ListenerRequestHandler.send_success_response'],
         stubs=['BaseHTTPRequestHandler.send_response/send_header/end_headers -> recording stubs', 'strings from a pool of 6 (ASCII, markup, non-ASCII BMP and astral) chosen by symbolic selectors'],
         bounds='error/success response x 6^3 message-id/method/description strings x status code 0..30',
         quick=dict(timeout=100), thorough=dict(timeout=400)),
]
CLAIM = dict(
    technique='bounded symbolic execution (CrossHair/z3) of the real request builders with symbolic arguments; the request DOM is checked by a DTD validator generated at run time from the repository DTD',
    text='For every operation the request element tree built by the real code is validated (content models, attribute lists, enumerations) against the DSP0203 DTD, every string in it must consist of XML Chars, '
         'and the CIMMethod/CIMObject headers must name the method and target of the body; tocimxml() of CIM objects and the listener responses are checked likewise (Content-Length equals the bytes written).',
    note='Trusted: CrossHair/z3, the DTD reader/validator (cross-checked against lxml on replay), minidom serialisation. Outside: argument values beyond the bounds; byte-level serialisation during the search.')
