PROPERTY = 'C06'
_DT = ['pywbem._cim_types:CIMDateTime.__init__', 'pywbem._cim_types:CIMDateTime._to_int', 'pywbem._cim_types:CIMDateTime._to_str',
       'pywbem._cim_types:CIMDateTime.__str__', 'pywbem._cim_types:CIMDateTime.minutes_from_utc']
HARNESSES = [
    dict(name='H1-cimint-range', engine='script', module='verifpw.e2.c06_cimint', function='cimint', reach='cimint_reach',
         functions=['pywbem._cim_types:CIMInt.__new__'], stubs=['_format -> constant', 'int.__new__(cls, x) -> typed value contract'],
         bounds='x over ALL integers (unbounded), 8 classes', quick=dict(timeout=60), thorough=dict(timeout=120)),
    dict(name='H3-datetime-roundtrip', engine='script', module='verifpw.e2.c06_datetime', function='roundtrip', reach='roundtrip_reach',
         functions=_DT,
         stubs=['datetime.datetime(...) -> range-check contract + model object', 'datetime.timedelta(...) -> carry-resolving contract + model object',
                'MinutesFromUTC -> model object', 're.Pattern.search/re.match -> sre_parse matcher', 'int(str) -> digit-sum contract',
                "f'{v:0Nd}' -> fresh digit variables with v = sum d_i 10^i", '_format -> constant'],
         bounds='all values of all digit positions of the 25-character string; all 13 timestamp and 11 interval asterisk patterns; both offset signs; '
                'UTC offset 0..999; interval fields hh,mm,ss <= 99 (carry modelled), values with more than 99999999 days excluded as not expressible',
         quick=dict(timeout=240, parts=13), thorough=dict(timeout=900, parts=13)),
    dict(name='H2-typed-values', engine='crosshair', module='c06_typed', function='typed', reach='typed_reach',
         functions=['pywbem._cim_obj:cimvalue', 'pywbem._cim_obj:CIMProperty.__init__', 'pywbem._cim_obj:CIMQualifier.__init__',
                    'pywbem._cim_obj:CIMParameter.__init__', 'pywbem._cim_obj:CIMQualifierDeclaration.__init__'],
         stubs=['_format -> constant', 'datetime-typed targets run untraced (selector enumeration only)'],
         bounds='8 entry points x 26 pool values (ints at type limits, floats incl. inf/nan, strings, CIM-typed numbers of other types, datetime, timedelta, bytes) x 15 CIM types',
         quick=dict(timeout=90, parts=8), thorough=dict(timeout=300, parts=8)),
    dict(name='H4-datetime-from-objects', engine='crosshair', module='c06_typed', function='dtobj', reach='dtobj_reach',
         functions=['pywbem._cim_types:CIMDateTime.__init__', 'pywbem._cim_types:CIMDateTime.__str__'],
         stubs=['runs untraced on a concrete boundary pool chosen by a symbolic selector (datetime/timedelta objects are C types)'],
         bounds='17 boundary timedelta / datetime / CIMDateTime inputs (max days, 23:59:59.999999, leap day, offsets +-999, asterisk forms)',
         quick=dict(timeout=60), thorough=dict(timeout=60)),
]
CLAIM = dict(
    engine='own AST->z3 interpreter + crosshair',
    technique='symbolic interpretation (z3) of CIMInt.__new__ over all integers and of the CIMDateTime string constructor/__str__ over all digit values and every asterisk pattern (digits as fresh variables with linear constraints); selector-driven exploration of the typed setters',
    text='Range enforcement is decided for all integers by z3. The datetime codec is interpreted from the current source: for every asterisk pattern the 25-character '
         'input has symbolic digits; on each accepted path str(x) must be a 25-character DSP0004 string and CIMDateTime(str(x)) must have the same kind, fields, offset and precision (z3 unsat of the negation). '
         'cimvalue() and the typed constructors/setters are explored over a pool of boundary values x all CIM types.',
    note='Trusted: z3, the E2 interpreter and its contracts for datetime/timedelta/int()/regex/f-string formatting. Real32/Real64 digit strings (.17G/.11G formatting is C code) are not decided here: '
         'floating point is outside the reach of the encoding (see DESIGN.md); float-based interval arithmetic would be reported as ENCODING-UNSUPPORTED, and is only covered by the concrete boundary pool of H4.')
