PROPERTY = 'C05'
_F = ['pywbem._cim_obj:CIMInstanceName.__eq__', 'pywbem._cim_obj:CIMInstanceName.__hash__', 'pywbem._cim_obj:CIMProperty.__eq__',
      'pywbem._cim_obj:CIMProperty.__hash__', 'pywbem._cim_obj:CIMInstance.__eq__', 'pywbem._cim_obj:CIMClass.__eq__',
      'pywbem._cim_obj:CIMQualifierDeclaration.__eq__', 'pywbem._utils:_eq_name', 'pywbem._utils:_hash_name', 'pywbem._utils:_eq_item',
      'pywbem._cim_types:_CIMComparisonMixin.__ne__', 'pywbem._cim_types:CIMDateTime.__eq__', 'pywbem._cim_types:CIMDateTime.__hash__']
HARNESSES = [
    dict(name='H1-single-attribute-variants', engine='crosshair', module='c05_laws', function='variant', reach='variant_reach', functions=_F,
         stubs=['_format -> constant', 'CIM names from a pool of 10 case variants incl. non-ASCII special-casing pairs (selectors); string values fully symbolic'],
         bounds='10 kinds x every attribute of the kind (table in the harness) x symbolic old/new values (str len<=1 quick / <=2, Optional[bool], Optional[int] unbounded) x reversed child order',
         quick=dict(timeout=80, parts=10, reach_timeout=90), thorough=dict(timeout=600, parts=10, reach_timeout=120)),
    dict(name='H1-datetime-laws', engine='crosshair', module='c05_laws', function='dtlaws', reach='dtlaws_reach', functions=_F[-2:],
         stubs=['runs untraced on a pool of 8 datetime strings chosen by two symbolic selectors'],
         bounds='all 64 pairs of 8 CIMDateTime values (same instant in other zones, precision variants, intervals)',
         quick=dict(timeout=60), thorough=dict(timeout=60)),
    dict(name='H2-copy-independence', engine='crosshair', module='c05_laws', function='copyind', reach='copyind_reach',
         functions=['pywbem._cim_obj:CIMInstance.copy', 'pywbem._cim_obj:CIMClass.copy', 'pywbem._cim_obj:CIMProperty.copy',
                    'pywbem._cim_obj:CIMInstanceName.copy', 'pywbem._cim_types:SlottedPickleMixin.__getstate__'],
         stubs=['_format -> constant'],
         bounds='10 kinds x {copy(), copy.copy, deepcopy, pickle} x one mutation of the copy (top-level attribute / inside first child collection / inside path), symbolic new values',
         quick=dict(timeout=80, parts=10, reach_timeout=90), thorough=dict(timeout=400, parts=10)),
]
CLAIM = dict(
    technique='bounded symbolic execution (CrossHair/z3) of the real __eq__/__hash__/copy code on pairs of objects differing in one symbolically chosen attribute',
    text='For each of 10 kinds, two objects identical except one attribute (chosen by a symbolic index into the attribute table, with symbolic old/new values) and optionally '
         'reversed child order are compared; the expected verdict comes from the property text (case-insensitive names/host/namespace, order-insensitive children, every other attribute distinguished); '
         'symmetry, negation, reflexivity, hash consistency and transitivity through a case-flipped twin are asserted; copies must be equal and independent under one symbolic mutation.',
    note='Trusted: CrossHair/z3. Names come from a concrete pool (case variants) because symbolic case mapping is too slow in CrossHair; NaN values excluded as in the property. '
         'copy.copy() is only required to be independent for top-level rebinding (shallow by definition).')
