PROPERTY = 'C18'
HARNESSES = [
    dict(name='H1-ownership-isolation', engine='script', module='verifpw.e2.c18_ownership', function='isolation', reach='isolation_reach',
         functions=['pywbem._subscription_manager:WBEMSubscriptionManager.add_server', 'pywbem._subscription_manager:WBEMSubscriptionManager._create_filter',
                    'pywbem._subscription_manager:WBEMSubscriptionManager._create_destination'],
         stubs=['discovery patterns captured from the real add_server() run on a stub server (re.compile intercepted)', 'Name templates read from the AST of _create_filter/_create_destination',
                're.match -> sre_parse backtracking matcher on code-point lists', 'replay: public API on the mock server'],
         bounds='16 manager IDs of regex-significant shapes x EVERY other manager ID of length 1..3 (quick) / 1..5 over printable ASCII without ":" x every filter/destination ID of length 0..1 (quick) / 0..2',
         quick=dict(timeout=120, parts=4), thorough=dict(timeout=1200, parts=16)),
    dict(name='H2-bookkeeping-scenarios', engine='crosshair', module='c18_manager', function='scenario', reach='scenario_reach',
         functions=['pywbem._subscription_manager:WBEMSubscriptionManager.add_destination', 'pywbem._subscription_manager:WBEMSubscriptionManager.add_filter',
                    'pywbem._subscription_manager:WBEMSubscriptionManager.add_subscriptions', 'pywbem._subscription_manager:WBEMSubscriptionManager.remove_filter',
                    'pywbem._subscription_manager:WBEMSubscriptionManager.remove_destinations', 'pywbem._subscription_manager:WBEMSubscriptionManager.remove_subscriptions',
                    'pywbem._subscription_manager:WBEMSubscriptionManager.remove_server', 'pywbem._subscription_manager:WBEMSubscriptionManager._create_subscription',
                    'pywbem_mock._subscriptionproviders:CIMIndicationSubscriptionProvider.DeleteInstance'],
         stubs=['mock server from a minimal interop MOF + install_subscription_providers', 'selectors realised, then the scenario runs untraced'],
         bounds='scripted scenarios over 8 symbolic selectors: foreign manager with same/different listener URL, owned/permanent destination(s) (1 or 2), owned/permanent filter, owned/permanent subscription on a single path / list / default, duplicate adds, '
                'one removal step (filter / destinations / subscriptions); restart with the same ID; remove_server',
         quick=dict(timeout=100, parts=12, reach_timeout=60, reach_parts=12), thorough=dict(timeout=300, parts=12, reach_timeout=60, reach_parts=12)),
]
CLAIM = dict(
    engine='own AST->z3 interpreter (regex contract) + crosshair',
    technique='SMT-decided regex matching of the real discovery patterns against every other manager\'s instance names (E2); solver-enumerated bookkeeping scenarios on the real mock server',
    text='Isolation: the patterns the real add_server() compiles for a manager ID are matched symbolically against the Name any other manager would create (all IDs within the bound); bookkeeping: selector-driven scripts of add/remove calls '
         'are run on the mock server and the owned lists must equal the owned instances present, restart rediscovers the same set, remove_server deletes exactly the owned set, refused calls change nothing.',
    note='Trusted: z3, the E2 regex contract (validated against re on replay), CrossHair as enumerator. Sequences longer than the scripted scenarios, several servers, and listener URL forms are outside the bound.')
