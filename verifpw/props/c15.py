PROPERTY = 'C15'
_F = ['pywbem._cim_operations:WBEMConnection.IterEnumerateInstances', 'pywbem._cim_operations:WBEMConnection.IterEnumerateInstancePaths',
      'pywbem._cim_operations:WBEMConnection.IterAssociatorInstances', 'pywbem._cim_operations:WBEMConnection.IterAssociatorInstancePaths',
      'pywbem._cim_operations:WBEMConnection.IterReferenceInstances', 'pywbem._cim_operations:WBEMConnection.IterReferenceInstancePaths',
      'pywbem._cim_operations:WBEMConnection.IterQueryInstances', 'pywbem._cim_operations:_validate_MaxObjectCount_Iter']
HARNESSES = [
    dict(name='H1-iter-vs-scripted-server', engine='crosshair', module='c15_iter', function='iter_step', reach='iter_step_reach', functions=_F,
         stubs=['Open.../Pull.../CloseEnumeration and the traditional operations of the connection -> scripted server driven by symbolic integers', '_format -> constant'],
         bounds='7 Iter operations; use_pull_operations in {True, False, None}; result size 0..3 (quick) / 0..5; server with/without pull; one CIMError (NOT_SUPPORTED / FAILED / ACCESS_DENIED) at call index 0..3 or none; '
                'MaxObjectCount any int <= 3 or None; consumption: exhaust or close() after 0..n items; optional FilterQuery / ContinueOnError; optional earlier Iter call of any kind on the same connection',
         quick=dict(timeout=80, parts=7, reach_timeout=60, reach_parts=7), thorough=dict(timeout=900, parts=7, reach_timeout=60, reach_parts=7)),
]
CLAIM = dict(
    technique='bounded symbolic execution (CrossHair/z3) of the real Iter... generator code against a scripted non-deterministic server whose behaviour (sizes, capabilities, fault position and code) is symbolic',
    text='The real generators run on a connection whose Open/Pull/Close/traditional operations are scripted by symbolic integers; the yielded sequence, the raised error, the CloseEnumeration calls, the open contexts left on the server, '
         'path completion on the fallback and the effect of an earlier Iter call on the same connection are compared with the behaviour the property text prescribes.',
    note='Trusted: CrossHair/z3 and the scripted server model (a correct pull server that fails at most once). End-to-end runs against the mock repository are not part of this harness; the server model replaces it.')
