"""Replay of an E3 counterexample schedule on the REAL WBEMListener with real threads.

Every operation that is a visible step of the model is a yield point of the real run:
the listener's shared attributes are properties of a subclass, queue.Queue / CallbackThread /
ServerThread / make_server / sleep are replaced in the pywbem._listener namespace by
instrumented subclasses or stand-ins (the HTTP server is a socket-less stand-in honouring
ThreadedHTTPServer's daemon_threads / block_on_close contract), senders call the real
ListenerRequestHandler.do_POST on a socket-less handler, callbacks are recording functions.
A controller thread grants one yield point at a time in the order of the schedule and checks
that the real thread arrived at the operation the model expected; a divergence means the
encoding is wrong (reported as not reproduced, i.e. a harness error, never as a violation).
After the schedule the threads run freely and the run is judged on what really happened.
"""
import io
import logging
import queue as _queue
import sys
import threading
import time

import pywbem
import pywbem._listener as lm
import pywbem._cim_xml as cx
from pywbem import CIMInstance
from . import compiler as C

STEP_TIMEOUT = 5.0


class Diverged(Exception):
    pass


class Controller:
    def __init__(self, schedule):
        self.schedule = [e for e in schedule if e[1] != 'DIE']
        self.cv = threading.Condition()
        self.waiting = {}        # thread name -> op it is waiting to perform
        self.granted = None      # (thread name, choice, opaque)
        self.free = True         # free-running (before the scripted part and after it)
        self.finished = set()
        self.trace = []
        self.tls = threading.local()
        self.error = None

    def name(self):
        return getattr(self.tls, 'name', None)

    def register(self, name):
        self.tls.name = name

    def done(self, name):
        with self.cv:
            self.finished.add(name)
            self.cv.notify_all()

    def yp(self, op):
        """Called by an instrumented operation before it takes effect. Returns (choice, opaque)."""
        name = self.name()
        if name is None:
            return False, {}
        with self.cv:
            if self.free:
                self.trace.append((name, op, 'free'))
                return False, {}
            self.waiting[name] = op
            self.cv.notify_all()
            while not self.free and not (self.granted and self.granted[0] == name):
                self.cv.wait(0.05)
            if self.free:
                self.waiting.pop(name, None)
                self.trace.append((name, op, 'free'))
                return False, {}
            g = self.granted
            self.granted = None
            self.waiting.pop(name, None)
            self.trace.append((name, op, 'sched'))
            self.cv.notify_all()
            return g[1], g[2]

    def run(self):
        """Drive the scripted part. Returns None or a divergence message."""
        for i, (name, op, choice, opaque) in enumerate(self.schedule):
            with self.cv:
                t0 = time.time()
                while name not in self.waiting:
                    if name in self.finished:
                        return 'step %d: model schedules %s/%s but the real thread has finished' % (i, name, op)
                    if time.time() - t0 > STEP_TIMEOUT:
                        return 'step %d: model schedules %s/%s but the real thread does not arrive (waiting: %r)' % (i, name, op, dict(self.waiting))
                    self.cv.wait(0.02)
                if self.waiting[name] != op:
                    return 'step %d: model expects %s to do %s, the real thread is about to do %s' % (i, name, op, self.waiting[name])
                self.granted = (name, choice, opaque or {})
                self.cv.notify_all()
                # wait until the thread took the grant
                while self.granted is not None:
                    self.cv.wait(0.02)
            # let it run to its next yield point (or block / finish)
            t0 = time.time()
            with self.cv:
                while name not in self.waiting and name not in self.finished and time.time() - t0 < 0.3:
                    self.cv.wait(0.01)
        return None

    def release(self):
        with self.cv:
            self.free = True
            self.cv.notify_all()


def build(config, schedule):
    ctl = Controller(schedule)
    private = set((config.get('private_attrs') or {}).keys())
    visible_attrs = ['_ind_queue', '_callback_thread', '_queue_full']
    log = {'delivered': [], 'responses': {}, 'dropped': [], 'cb_threads': [], 'serving': False, 'inflight': 0}
    lock = threading.Lock()

    class HookedListener(lm.WBEMListener):
        pass

    def mkprop(attr):
        slot = '_verif_' + attr

        def get(self):
            ctl.yp('LOADATTR')
            return self.__dict__.get(slot)

        def set_(self, v):
            ctl.yp('STOREATTR')
            self.__dict__[slot] = v
        return property(get, set_)
    for a in visible_attrs:
        if a not in private:
            setattr(HookedListener, a, mkprop(a))

    class HookedQueue(_queue.Queue):
        def __init__(self, maxsize=0):
            ctl.yp('NEWQUEUE')
            super().__init__(maxsize)

        def get(self, block=True, timeout=None):
            ctl.yp('CALL_get')
            try:
                return super().get(block=False)
            except _queue.Empty:
                if block and timeout is None:
                    return super().get(block=True)
                raise

        def put(self, item, block=True, timeout=None):
            ctl.yp('CALL_put')
            return super().put(item, block=block, timeout=timeout)

        def empty(self):
            ctl.yp('CALL_empty')
            return super().empty()

        def qsize(self):
            ctl.yp('CALL_qsize')
            return super().qsize()

        def task_done(self):
            ctl.yp('CALL_task_done')
            return super().task_done()

    class QueueModule:
        Queue = HookedQueue
        Full = _queue.Full
        Empty = _queue.Empty

    class HookedCallbackThread(lm.CallbackThread):
        def __init__(self, *a, **k):
            ctl.yp('NEWTHREAD')
            super().__init__(*a, **k)
            with lock:
                self.verif_name = 'callback%d' % len(log['cb_threads'])
                log['cb_threads'].append(self)

        def run(self):
            ctl.register(self.verif_name)
            try:
                super().run()
            finally:
                ctl.done(self.verif_name)

        def start(self):
            ctl.yp('CALL_start')
            return super().start()

        def stop(self):
            ctl.yp('CALL_stop')
            return super().stop()

        def stopped(self):
            ctl.yp('CALL_stopped')
            return super().stopped()

        def join(self, *a, **k):
            ctl.yp('CALL_join')
            return super().join(*a, **k)

    class HookedServerThread:
        def __init__(self, *a, **k):
            ctl.yp('NEWSTHREAD')

        def start(self):
            ctl.yp('CALL_start')
            log['serving'] = True

        def join(self, *a, **k):
            ctl.yp('CALL_join')

    joins = bool(getattr(lm.ThreadedHTTPServer, 'block_on_close', False)) and not bool(getattr(lm.ThreadedHTTPServer, 'daemon_threads', False))

    class FakeServer:
        def serve_forever(self):
            pass

        def shutdown(self):
            ctl.yp('CALL_shutdown')
            log['serving'] = False

        def server_close(self):
            ctl.yp('CALL_server_close')
            if joins:
                t0 = time.time()
                while log['inflight'] and time.time() - t0 < STEP_TIMEOUT:
                    time.sleep(0.005)

    def fake_make_server(logger, host, port, handler):
        choice, _ = ctl.yp('MAKE_SERVER')
        if choice:
            import errno
            raise C.StartFailure(errno.EADDRINUSE, 'address in use (scripted)')
        return FakeServer()

    def fake_sleep(x):
        ctl.yp('SLEEP')

    def mkcallback(i):
        def cb(indication, host):
            ctl.yp('CB_ENTER')
            with lock:
                log['delivered'].append((i, indication['Id'], threading.current_thread().name))
            choice, _ = ctl.yp('CB_EXIT')
            if choice:
                raise C.CallbackFailure('scripted callback failure')
        cb.__name__ = 'callback_%d' % i
        return cb

    class Handler(lm.ListenerRequestHandler):
        def __init__(self, lst, body, key):
            self.key = key
            self.server = type('Srv', (), {})()
            self.server.listener = lst
            self.client_address = ('1.2.3.4', 1)
            self.headers = {'Content-Length': str(len(body)), 'Content-Type': 'application/xml; charset=utf-8', 'CIMExport': 'MethodRequest',
                            'CIMExportMethod': 'ExportIndication'}
            self.rfile = io.BytesIO(body)
            self.wfile = io.BytesIO()
            self.command, self.path, self.request_version = 'POST', '/', 'HTTP/1.1'

        def send_response(self, code, message=None):
            pass

        def send_header(self, k, v):
            pass

        def end_headers(self):
            pass

        def send_success_response(self, msgid, methodname, instance):
            ctl.yp('RESPOND')
            log['responses'].setdefault(self.key, []).append('success')
            return super().send_success_response(msgid, methodname, instance)

        def send_error_response(self, msgid, methodname, status_code, status_desc, *a, **k):
            ctl.yp('RESPOND')
            log['responses'].setdefault(self.key, []).append('error')
            return super().send_error_response(msgid, methodname, status_code, status_desc, *a, **k)

        def send_http_error(self, *a, **k):
            ctl.yp('RESPOND')
            log['responses'].setdefault(self.key, []).append('http-error')
            return super().send_http_error(*a, **k)

    def export_body(ind_id):
        inst = CIMInstance('CIM_AlertIndication', properties={'Id': pywbem.Uint32(ind_id)})
        dom = cx.CIM(cx.MESSAGE(cx.SIMPLEEXPREQ(cx.EXPMETHODCALL('ExportIndication', [cx.EXPPARAMVALUE('NewIndication', inst.tocimxml())])), str(ind_id), '1.0'), '2.0', '2.0')
        return ('<?xml version="1.0" encoding="utf-8" ?>\n' + dom.toxml()).encode('utf-8')

    return ctl, log, dict(HookedListener=HookedListener, QueueModule=QueueModule, HookedCallbackThread=HookedCallbackThread,
                          HookedServerThread=HookedServerThread, fake_make_server=fake_make_server, fake_sleep=fake_sleep,
                          mkcallback=mkcallback, Handler=Handler, export_body=export_body)


def replay(config, schedule, kind=None):
    """-> (reproduced, detail)"""
    ctl, log, k = build(config, schedule)
    saved = dict(queue=lm.queue, CallbackThread=lm.CallbackThread, ServerThread=lm.ServerThread, make_server=lm.make_server, sleep=lm.sleep)
    lm.queue, lm.CallbackThread, lm.ServerThread, lm.make_server, lm.sleep = k['QueueModule'], k['HookedCallbackThread'], k['HookedServerThread'], k['fake_make_server'], k['fake_sleep']
    result = {'main_exc': None, 'main_done': False}
    S, N, NC = config['senders'], config['inds'], config['callbacks']
    try:
        lst = k['HookedListener']('localhost', http_port=5000, max_ind_queue_size=config['maxq'])
        lst.logger.disabled = True
        lst.queue_get_timeout = lst.queue_get_timeout
        for i in range(NC):
            lst.add_callback(k['mkcallback'](i))

        def main_body():
            ctl.register('main')
            try:
                for call in (config.get('script') or ['start', 'stop'] * config['starts']):
                    getattr(lst, call)()
            except BaseException as e:      # noqa
                result['main_exc'] = e
            finally:
                result['main_done'] = True
                ctl.done('main')

        def sender_body(s):
            ctl.register('sender%d' % s)
            try:
                for i in range(N):
                    ind = s * N + i
                    ctl.yp('BEGIN_REQUEST')
                    log['inflight'] += 1
                    h = k['Handler'](lst, k['export_body'](ind), ind)
                    try:
                        h.do_POST()
                    except Exception as e:      # noqa: what socketserver would log; the connection is dropped
                        log['dropped'].append((ind, type(e).__name__))
                        log['inflight'] -= 1
                        continue
                    ctl.yp('END_REQUEST')
                    log['inflight'] -= 1
            finally:
                ctl.done('sender%d' % s)
        threads = [threading.Thread(target=main_body, name='main', daemon=True)]
        threads += [threading.Thread(target=sender_body, args=(s,), name='sender%d' % s, daemon=True) for s in range(S)]
        ctl.free = False
        for t in threads:
            t.start()
        div = ctl.run()
        # judge the state right after the scripted part for "stop() returned" properties, then let everything finish
        ctl.release()
        t0 = time.time()
        while not result['main_done'] and time.time() - t0 < 10:
            time.sleep(0.01)
        time.sleep(0.2)
        left = [t.verif_name for t in log['cb_threads'] if t.is_alive()]
        problems = []
        if div:
            return False, 'schedule diverged: %s; trace tail %r' % (div, ctl.trace[-6:])
        if not result['main_done']:
            problems.append('start()/stop() did not return within 10 s (threads alive: %r)' % left)
        e = result['main_exc']
        allowed = (OSError, pywbem.ListenerError) if config.get('start_may_fail') else ()
        if e is not None and not isinstance(e, allowed):
            problems.append('start()/stop() raised %s: %s' % (type(e).__name__, e))
        per = {}
        for (cb, ind, tn) in log['delivered']:
            per.setdefault((cb, ind), 0)
            per[(cb, ind)] += 1
        for (cb, ind), n in per.items():
            if n > 1:
                problems.append('indication %d delivered %d times to callback %d' % (ind, n, cb))
        for ind in range(S * N):
            rs = log['responses'].get(ind, [])
            if len(rs) > 1:
                problems.append('indication %d got %d responses' % (ind, len(rs)))
            if rs[:1] == ['success'] and result['main_done'] and e is None:
                for cb in range(NC):
                    if per.get((cb, ind), 0) != 1:
                        problems.append('indication %d was acknowledged with success but delivered %d times to callback %d' % (ind, per.get((cb, ind), 0), cb))
            if rs[:1] == ['error']:
                for cb in range(NC):
                    if per.get((cb, ind), 0):
                        problems.append('indication %d was refused (queue full) but delivered to callback %d' % (ind, cb))
        # orders
        for cb in range(NC):
            seq = [ind for (c_, ind, tn) in log['delivered'] if c_ == cb]
            for s in range(S):
                mine = [x for x in seq if x // N == s]
                if mine != sorted(mine):
                    problems.append('callback %d saw the indications of sender %d in the order %r' % (cb, s, mine))
        order = log['delivered']
        for idx, (cb, ind, tn) in enumerate(order):
            if cb > 0 and not any(c2 == cb - 1 and i2 == ind for (c2, i2, _) in order[:idx]):
                problems.append('callback %d ran for indication %d before callback %d' % (cb, ind, cb - 1))
        if left and result['main_done']:
            problems.append('callback thread(s) %r still alive after stop() returned' % left)
        if result['main_done'] and e is None:
            if lst.__dict__.get('_verif__ind_queue') is not None or lst.__dict__.get('_verif__callback_thread') is not None:
                problems.append('listener still holds a queue or callback thread after stop(): it cannot be started again')
        if problems:
            return True, '; '.join(problems[:4])
        return False, 'no violation in the real run (delivered %r, responses %r)' % (log['delivered'], log['responses'])
    finally:
        ctl.release()
        lm.queue, lm.CallbackThread, lm.ServerThread, lm.make_server, lm.sleep = saved['queue'], saved['CallbackThread'], saved['ServerThread'], saved['make_server'], saved['sleep']
        for t in log['cb_threads']:
            try:
                t.stop_event.set()
            except Exception:      # noqa
                pass
