"""E3 back end (round-robin sequentialisation, after Lazy-CSeq): the thread programs are
executed symbolically in R rounds; in each round every thread runs, in a fixed order, from
where it stopped to a context-switch point chosen by the solver (a fresh Boolean in front of
every visible instruction instance) or until it blocks.  Loops are unrolled by counting the
back edges a thread has taken (bound U per thread).  All schedules with at most R contexts
per thread - in particular every schedule with fewer than R context switches - are covered by
ONE formula whose size is R x (sum of unrolled program sizes); the state is threaded through
in SSA form, so z3 sees straight-line data flow instead of a step-indexed transition relation.
"""
import sys
import z3
from . import compiler as C
from .encode import Model, Case, I, IV, ite, stored_locals, W, LOCAL_OPS


class RRModel(Model):
    def __init__(self, comp, threads, cfg):
        self.comp, self.threads, self.cfg = comp, threads, cfg
        self.S, self.N, self.NC, self.G = cfg['senders'], cfg['inds'], cfg['callbacks'], cfg['starts']
        self.NIND = self.S * self.N
        self.CAP = max(1, self.NIND)
        self.B, self.P = cfg['max_timeouts'], cfg['max_sleeps']
        self.T = len(threads)
        self.pre = {}
        self.init = {}
        self.choice = {}
        self._tag = 'init'
        self.build_state()
        for t, th in enumerate(threads):
            self.var('bk%d' % t, 0)        # back edges taken by thread t (loop unrolling counter)
            self.var('trunc%d' % t, 0)     # thread ran into its unrolling bound
        for t, th in enumerate(threads):
            ends = [i for i, ins in enumerate(th['prog'].instrs) if ins[0] == 'end']
            th['end'] = ends[0] if ends else -1
            self.analyse(t, th)

    # ------------------------------------------------------------------ static structure of a thread
    def vis_succ(self, prog, start):
        out, seen, stack = set(), set(), [start]
        while stack:
            i = stack.pop()
            if i in seen:
                continue
            seen.add(i)
            ins = prog.instrs[i]
            if ins[0] in ('vis', 'end'):
                out.add(i)
            elif ins[0] == 'jmp':
                stack.append(ins[1])
            elif ins[0] == 'set':
                stack.append(ins[3])
            elif ins[0] == 'br':
                stack += [ins[2], ins[3]]
        return out

    def analyse(self, t, th):
        prog = th['prog']
        env = dict((l, I(prog.local_init.get(l, 0))) for l in prog.locals)
        pc0, envi = self.resolve(prog, 0, env)
        th['pc0'] = z3.simplify(pc0).as_long()
        th['env0'] = envi
        succ = {}
        for i, ins in enumerate(prog.instrs):
            if ins[0] == 'vis':
                succ[i] = sorted(self.vis_succ(prog, ins[4]) | self.vis_succ(prog, ins[5]))
            elif ins[0] == 'end':
                succ[i] = []
        # DFS: back edges and reverse postorder of the forward graph
        color, order, back = {}, [], set()

        def dfs(u):
            color[u] = 1
            for v in succ[u]:
                if color.get(v) == 1:
                    back.add((u, v))
                elif v not in color:
                    dfs(v)
            color[u] = 2
            order.append(u)
        sys.setrecursionlimit(10000)
        dfs(th['pc0'])
        order.reverse()
        th['order'] = [u for u in order if prog.instrs[u][0] == 'vis']
        th['back'] = back
        th['succ'] = succ

    # ------------------------------------------------------------------ encoding
    def unroll_bound(self, th):
        if th['kind'] == 'main':
            return self.cfg['max_sleeps'] + (self.NIND if self.cfg.get('start_may_fail') else 0)
        if th['kind'] == 'callback':
            return self.NIND + self.cfg['max_timeouts']
        return self.N

    def encode(self, R):
        self.R = R
        st = dict((n, I(v)) for n, v in self.init.items())
        for t, th in enumerate(self.threads):
            st['pc%d' % t] = I(th['pc0'])
            for l, v in th['env0'].items():
                if l in th['stored']:
                    st['L%d.%s' % (t, l)] = v
        self.cons = []
        self.log = []           # (round, thread, pos, bk, fire-expr, ch-var, opaque-vars)
        self.boundaries = []    # state snapshots at the end of every context

        def snapshot(state, tag):
            out = {}
            for n, e in state.items():
                e = z3.simplify(e)
                if z3.is_bv_value(e):
                    out[n] = e
                else:
                    v = IV('%s!%s' % (n, tag))
                    self.cons.append(v == e)
                    out[n] = v
            return out
        def named_bool(e, tag):
            e = z3.simplify(e)
            if z3.is_true(e) or z3.is_false(e):
                return e
            v = z3.Bool(tag)
            self.cons.append(v == e)
            return v

        def named_bv(e, tag):
            if z3.is_bv_value(e) or z3.is_const(e):
                return e
            v = IV(tag)
            self.cons.append(v == e)
            return v
        for r in range(R):
            for t, th in enumerate(self.threads):
                prog = th['prog']
                U = self.unroll_bound(th)
                run = z3.BoolVal(True)
                if th['kind'] == 'callback':
                    run = st['started%d' % th['gen']] == 1
                run = named_bool(z3.And(run, st['pc%d' % t] != th['end'], st['trunc%d' % t] == 0), 'run!r%d.t%d' % (r, t))
                for bk in range(U + 1):
                    for pos in th['order']:
                        if z3.is_false(run):
                            break
                        at = z3.simplify(z3.And(run, st['pc%d' % t] == pos, st['bk%d' % t] == bk))
                        if z3.is_false(at):
                            continue
                        ins = prog.instrs[pos]
                        tag = 'r%d.t%d.b%d.p%d' % (r, t, bk, pos)
                        cs = z3.Bool('cs!' + tag)
                        self.pre = st
                        self.choice = {'ch': z3.Bool('ch!' + tag)}
                        self._tag = tag
                        env0 = dict((l, st['L%d.%s' % (t, l)] if l in th['stored'] else I(0)) for l in prog.locals)
                        cases, en, en_nb = self.op(t, th, ins, env0)
                        local = ins[1] in LOCAL_OPS and not (ins[1] == 'MAKE_SERVER' and self.cfg.get('start_may_fail'))
                        fire = named_bool(z3.And(at, en) if local else z3.And(at, z3.Not(cs), en), 'fire!' + tag)
                        run = named_bool(z3.And(run, z3.Or(z3.Not(at), fire)), 'run!' + tag)
                        if z3.is_false(fire):
                            continue
                        keys = set()
                        for cs_ in cases:
                            keys.update(cs_.upd)
                        mpc = menv = mupd = None
                        for cs_ in reversed(cases):
                            env = dict(env0)
                            raising = not (isinstance(cs_.exc, int) and cs_.exc == 0)
                            if raising:
                                env['$exc'] = I(cs_.exc) if isinstance(cs_.exc, int) else cs_.exc
                                npc, nenv = self.resolve(prog, ins[5], env)
                            else:
                                env[ins[3]] = cs_.res
                                npc, nenv = self.resolve(prog, ins[4], env)
                            upd = dict((k_, cs_.upd.get(k_, st[k_])) for k_ in keys)
                            if mpc is None:
                                mpc, menv, mupd = npc, nenv, upd
                            else:
                                g_ = z3.simplify(cs_.guard)
                                mpc = ite(g_, npc, mpc)
                                menv = dict((n, ite(g_, nenv[n], menv[n])) for n in nenv)
                                mupd = dict((k_, ite(g_, upd[k_], mupd[k_])) for k_ in keys)
                        new = dict(st)

                        def upd_var(key, v):
                            old = st[key]
                            if v is old or v.eq(old):
                                return
                            if z3.is_true(fire):
                                new[key] = named_bv(z3.simplify(v), '%s!%s' % (key, tag))
                            else:
                                new[key] = named_bv(z3.If(fire, v, old), '%s!%s' % (key, tag))
                        for k_, v in mupd.items():
                            upd_var(k_, v)
                        for n, v in menv.items():
                            if n in th['stored']:
                                upd_var('L%d.%s' % (t, n), v)
                        mpc = named_bv(z3.simplify(mpc), 'npc!' + tag)
                        upd_var('pc%d' % t, mpc)
                        backs = [v for (u, v) in th['back'] if u == pos]
                        if backs:
                            took = z3.And(fire, z3.Or([mpc == v for v in backs]))
                            if bk < U:
                                new['bk%d' % t] = named_bv(z3.If(took, I(bk + 1), st['bk%d' % t]), 'bk%d!%s' % (t, tag))
                            else:
                                new['trunc%d' % t] = named_bv(z3.If(took, I(1), st['trunc%d' % t]), 'trunc%d!%s' % (t, tag))
                        recv = self.ev(ins[2][0], env0) if ins[1].startswith('CALL_') else None
                        self.log.append((r, t, pos, bk, fire, self.choice['ch'], dict((n, v) for n, v in self.choice.items() if n != 'ch'), recv))
                        st = new
                self.boundaries.append(((r, t), st))
        self.final = st
        return self.cons

    def tb(self, e, env):
        if e[0] == 'opaque':
            n = 'opq%d' % e[1]
            if n not in self.choice:
                self.choice[n] = z3.Bool('%s!%s' % (n, self._tag))
            return self.choice[n]
        return Model.tb(self, e, env)

    def enabled_now(self, st):
        """per thread: can it make a step (ignoring the timeout budget) in state st."""
        self.pre = st
        out = []
        for t, th in enumerate(self.threads):
            prog = th['prog']
            active = z3.BoolVal(True)
            if th['kind'] == 'callback':
                active = st['started%d' % th['gen']] == 1
            ens = []
            for pos in th['order']:
                ins = prog.instrs[pos]
                self.choice = {'ch': z3.Bool('ch!en')}
                self._tag = 'en'
                env0 = dict((l, st['L%d.%s' % (t, l)] if l in th['stored'] else I(0)) for l in prog.locals)
                _, en, en_nb = self.op(t, th, ins, env0)
                ens.append(z3.And(st['pc%d' % t] == pos, en_nb))
            out.append(z3.And(active, st['trunc%d' % t] == 0, z3.Or(ens)))
        return out

    def schedule(self, m):
        out = []
        for (r, t, pos, bk, fire, ch, opq, recv) in self.log:
            if z3.is_true(m.eval(fire, model_completion=True)):
                ins = self.threads[t]['prog'].instrs[pos]
                phantom = False
                if recv is not None:
                    # a method call on None (or an object without that method) raises AttributeError in the
                    # real code without reaching the object: the step has no counterpart in the instrumented run
                    v = m.eval(recv, model_completion=True).as_signed_long()
                    meth = ins[1][5:]
                    if meth in C.QUEUE_METHODS:
                        phantom = not (C.QREF <= v < C.QREF + self.G)
                    elif meth in C.THREAD_METHODS:
                        phantom = not (C.TREF <= v < C.TREF + self.G or v == C.STREF)
                    else:
                        phantom = v != C.SREF
                out.append({'round': r, 'thread': self.threads[t]['name'], 'op': ins[1] if not phantom else 'DIE', 'info': ins[6],
                            'choice': z3.is_true(m.eval(ch, model_completion=True)),
                            'opaque': dict((n, z3.is_true(m.eval(v, model_completion=True))) for n, v in opq.items()), 'pc': pos})
        return out
