"""E3 back end: bounded model checking (z3) of the thread programs produced by
verifpw.bmc.compiler under EVERY schedule of at most K visible steps.

State: the listener's shared attributes, up to G queue objects (length, maxsize,
unfinished-task counter, slots), up to G callback-thread objects (started, stop event,
stored exception), the HTTP server state, per-sender request counters and responses, the
delivery log (count per callback x indication, last sequence number per callback x sender),
a sticky violation code, and per thread a program counter and its locals.
One step = one VISIBLE instruction of one thread chosen by the symbolic scheduler variable
sched_k; the invisible (thread-local) instructions that follow are folded into the step.
Environment choices are symbolic per step: whether a timed get() on an empty queue times
out now, whether the running callback raises, whether make_server() fails.
"""
import time
import z3
from . import compiler as C
from .compiler import NONE, OPQ, QREF, TREF, SREF, STREF, LISTENER

W = 11


def I(v):
    return z3.BitVecVal(v, W)


def IV(name):
    return z3.BitVec(name, W)


LOCAL_OPS = {'NEWQUEUE', 'NEWTHREAD', 'NEWSTHREAD', 'MAKE_SERVER', 'SLEEP'}


class Case:
    def __init__(self, guard, upd=None, res=None, exc=0):
        self.guard, self.upd, self.res, self.exc = guard, upd or {}, I(NONE) if res is None else res, exc


def ite(c, a, b):
    if a is b or (z3.is_expr(a) and z3.is_expr(b) and a.eq(b)):
        return a
    if z3.is_true(c):
        return a
    if z3.is_false(c):
        return b
    return z3.If(c, a, b)


def locs_of(e, out):
    if e[0] == 'loc':
        out.add(e[1])
    elif e[0] == 'excin':
        out.add('$exc')
    else:
        for x in e[1:]:
            if isinstance(x, tuple) and x and isinstance(x[0], str):
                locs_of(x, out)
    return out


def stored_locals(prog):
    """Locals that are live at the entry of some visible instruction (only those need a state variable)."""
    n = len(prog.instrs)
    live = [set() for _ in range(n)]
    changed = True
    while changed:
        changed = False
        for i in range(n - 1, -1, -1):
            ins = prog.instrs[i]
            k = ins[0]
            if k == 'end':
                new = set()
            elif k == 'jmp':
                new = set(live[ins[1]])
            elif k == 'set':
                new = (live[ins[3]] - {ins[1]}) | locs_of(ins[2], set())
            elif k == 'br':
                new = live[ins[2]] | live[ins[3]] | locs_of(ins[1], set())
            else:
                new = (live[ins[4]] - {ins[3]}) | (live[ins[5]] - {'$exc'})
                for a in ins[2]:
                    locs_of(a, new)
            if new != live[i]:
                live[i] = new
                changed = True
    out = set()
    for i, ins in enumerate(prog.instrs):
        if ins[0] == 'vis':
            out |= live[i]
    return out, live


class Model:
    def __init__(self, comp, threads, cfg):
        """threads: list of dict(name, kind ('main'|'callback'|'sender'), prog, gen/sender index)."""
        self.comp, self.threads, self.cfg = comp, threads, cfg
        self.S, self.N, self.NC, self.G = cfg['senders'], cfg['inds'], cfg['callbacks'], cfg['starts']
        self.NIND = self.S * self.N
        self.CAP = max(1, self.NIND)
        self.B, self.P = cfg['max_timeouts'], cfg['max_sleeps']
        self.T = len(threads)
        self.pre = {}
        self.choice = {'ch': z3.Bool('ch'), 'sched': IV('sched')}
        self.init = {}
        self.build_state()
        self.build_transitions()

    # ------------------------------------------------------------------ state
    def var(self, name, init):
        self.pre[name] = IV('S!' + name)
        self.init[name] = init
        return self.pre[name]

    def build_state(self):
        c = self.comp
        for a in sorted(c.shared):
            if a in self.cfg.get('private_attrs', {}):
                continue
            self.var('A.' + a, 0 if a == '_queue_full' else NONE)
        self.var('qgen', 0)
        self.var('tgen', 0)
        for g in range(self.G):
            self.var('qlen%d' % g, 0)
            self.var('qmax%d' % g, 0)
            self.var('unf%d' % g, 0)
            for i in range(self.CAP):
                self.var('q%d_%d' % (g, i), -1)
            self.var('started%d' % g, 0)
            self.var('stopev%d' % g, 0)
            self.var('texc%d' % g, 0)
            self.var('tdaemon%d' % g, 0)
        self.var('srv', 0)            # 0 none, 1 serving, 2 shut down, 3 closed
        self.var('srvthread', 0)      # server thread object created
        for s in range(self.S):
            self.var('nsent%d' % s, 0)
            self.var('inreq%d' % s, 0)
            for i in range(self.N):
                self.var('ack%d_%d' % (s, i), 0)      # 0 none yet, 1 success, 2 error response, 3 connection dropped
        for cb in range(self.NC):
            for ind in range(self.NIND):
                self.var('dc%d_%d' % (cb, ind), 0)
            for s in range(self.S):
                self.var('last%d_%d' % (cb, s), -1)
        self.var('bad', 0)
        self.var('mainexc', 0)
        self.var('ntmo', 0)
        self.var('nsleep', 0)
        self.var('incb', 0)           # callback currently executing (entered, not yet left)
        self.var('lastt', -1)         # thread that made the previous step
        self.var('npre', 0)           # preemptive context switches so far (previous thread could have continued)
        for t, th in enumerate(self.threads):
            self.var('pc%d' % t, 0)
            th['stored'], th['live'] = stored_locals(th['prog'])
            for l in sorted(th['stored']):
                self.var('L%d.%s' % (t, l), th['prog'].local_init.get(l, 0))

    # ------------------------------------------------------------------ pure expressions
    def tb(self, e, env):
        k = e[0]
        if k == 'const':
            return z3.BoolVal(e[1] not in (NONE, 0))
        if k == 'not':
            return z3.Not(self.tb(e[1], env))
        if k == 'truth':
            return self.tb(e[1], env)
        if k in ('eq', 'ne', 'lt', 'le', 'gt', 'ge'):
            a, b = self.ev(e[1], env), self.ev(e[2], env)
            return {'eq': a == b, 'ne': a != b, 'lt': a < b, 'le': a <= b, 'gt': a > b, 'ge': a >= b}[k]
        if k == 'excin':
            kinds = [i for i, cls in enumerate(self.comp.exc_classes) if cls is not None and issubclass(cls, e[1])]
            x = env['$exc']
            return z3.Or([x == i for i in kinds]) if kinds else z3.BoolVal(False)
        if k == 'opaque':
            n = 'opq%d' % e[1]
            if n not in self.choice:
                self.choice[n] = z3.Bool(n)
            return self.choice[n]
        v = self.ev(e, env)
        return z3.And(v != NONE, v != 0)

    def ev(self, e, env):
        k = e[0]
        if k == 'const':
            return I(e[1])
        if k == 'loc':
            return env[e[1]]
        if k == 'add':
            return self.ev(e[1], env) + self.ev(e[2], env)
        if k == 'sub':
            return self.ev(e[1], env) - self.ev(e[2], env)
        return z3.If(self.tb(e, env), I(1), I(0))

    # ------------------------------------------------------------------ folding of invisible instructions
    def resolve(self, prog, pos, env, fuel=400):
        if fuel <= 0:
            raise C.Unsupported('thread-local loop without a visible step in %s' % prog.name)
        ins = prog.instrs[pos]
        k = ins[0]
        if k in ('vis', 'end'):
            return I(pos), env
        if k == 'jmp':
            return self.resolve(prog, ins[1], env, fuel - 1)
        if k == 'set':
            env2 = dict(env)
            env2[ins[1]] = z3.simplify(self.ev(ins[2], env))
            return self.resolve(prog, ins[3], env2, fuel - 1)
        if k == 'br':
            c = z3.simplify(self.tb(ins[1], env))
            if z3.is_true(c):
                return self.resolve(prog, ins[2], env, fuel - 1)
            if z3.is_false(c):
                return self.resolve(prog, ins[3], env, fuel - 1)
            p1, e1 = self.resolve(prog, ins[2], env, fuel - 1)
            p2, e2 = self.resolve(prog, ins[3], env, fuel - 1)
            return ite(c, p1, p2), dict((n, ite(c, e1[n], e2[n])) for n in e1)
        raise AssertionError(ins)

    # ------------------------------------------------------------------ operation semantics
    def g_of_q(self, r):
        return [(g, r == QREF + g) for g in range(self.G)]

    def op(self, t, th, ins, env):
        """-> (cases, enabled, enabled_ignoring_budgets)"""
        p = self.pre
        opn, args, info = ins[1], [self.ev(a, env) for a in ins[2]], ins[6]
        T_, F_ = z3.BoolVal(True), z3.BoolVal(False)
        ch = self.choice['ch']
        if opn == 'LOADATTR':
            return [Case(T_, {}, p['A.' + info['attr']])], T_, T_
        if opn == 'STOREATTR':
            return [Case(T_, {'A.' + info['attr']: args[0]})], T_, T_
        if opn == 'SLEEP':
            return [Case(T_, {'nsleep': p['nsleep'] + 1})], T_, T_
        if opn == 'DIE':
            if th['kind'] == 'main':
                return [Case(T_, {'mainexc': args[0]})], T_, T_
            if th['kind'] == 'callback':
                return [Case(T_, {'texc%d' % th['gen']: args[0]})], T_, T_
            s = th['sender']
            upd = {'inreq%d' % s: I(0)}
            for i in range(self.N):
                upd['ack%d_%d' % (s, i)] = ite(z3.And(p['nsent%d' % s] - 1 == i, p['ack%d_%d' % (s, i)] == 0), I(3), p['ack%d_%d' % (s, i)])
            return [Case(T_, upd)], T_, T_
        if opn == 'NEWQUEUE':
            cases = []
            for g in range(self.G):
                upd = {'qgen': p['qgen'] + 1, 'qlen%d' % g: I(0), 'qmax%d' % g: args[0], 'unf%d' % g: I(0)}
                cases.append(Case(p['qgen'] == g, upd, I(QREF + g)))
            en = p['qgen'] < self.G
            return cases, en, en
        if opn == 'NEWTHREAD':
            cases = []
            for g in range(self.G):
                cases.append(Case(p['tgen'] == g, {'tgen': p['tgen'] + 1, 'tdaemon%d' % g: ite(z3.And(args[0] != 0, args[0] != NONE), I(1), I(0))}, I(TREF + g)))
            en = p['tgen'] < self.G
            return cases, en, en
        if opn == 'NEWSTHREAD':
            return [Case(T_, {'srvthread': I(1)}, I(STREF))], T_, T_
        if opn == 'MAKE_SERVER':
            if self.cfg.get('start_may_fail'):
                return [Case(ch, {}, None, C.K_OS), Case(z3.Not(ch), {}, I(SREF))], T_, T_
            return [Case(T_, {}, I(SREF))], T_, T_
        if opn == 'BEGIN_REQUEST':
            s = th['sender']
            en = z3.And(p['srv'] == 1, p['nsent%d' % s] < self.N)
            return [Case(T_, {'nsent%d' % s: p['nsent%d' % s] + 1, 'inreq%d' % s: I(1)}, I(s * self.N) + p['nsent%d' % s])], en, en
        if opn == 'END_REQUEST':
            s = th['sender']
            upd = {'inreq%d' % s: I(0)}
            for i in range(self.N):      # a handler that returns without any response = dropped connection
                upd['ack%d_%d' % (s, i)] = ite(z3.And(p['nsent%d' % s] - 1 == i, p['ack%d_%d' % (s, i)] == 0), I(3), p['ack%d_%d' % (s, i)])
            return [Case(T_, upd)], T_, T_
        if opn == 'RESPOND':
            s = th['sender']
            upd = {}
            bad = p['bad']
            for i in range(self.N):
                cur = p['ack%d_%d' % (s, i)]
                sel = p['nsent%d' % s] - 1 == i
                upd['ack%d_%d' % (s, i)] = ite(sel, ite(cur == 0, args[0], cur), cur)
                bad = ite(z3.And(sel, cur != 0, bad == 0), I(7), bad)        # two responses to one request
            upd['bad'] = bad
            return [Case(T_, upd)], T_, T_
        if opn == 'CB_ENTER':
            cb, ind = args
            upd, bad = {}, p['bad']
            for c_ in range(self.NC):
                for x in range(self.NIND):
                    sel = z3.And(cb == c_, ind == x)
                    d = p['dc%d_%d' % (c_, x)]
                    upd['dc%d_%d' % (c_, x)] = ite(sel, d + 1, d)
                    bad = ite(z3.And(sel, d >= 1, bad == 0), I(1), bad)                      # delivered twice
                    if c_ > 0:
                        bad = ite(z3.And(sel, p['dc%d_%d' % (c_ - 1, x)] == 0, bad == 0), I(2), bad)   # registration order
                    s, i = divmod(x, self.N)
                    bad = ite(z3.And(sel, p['last%d_%d' % (c_, s)] >= i, bad == 0), I(3), bad)         # sender order
                for s in range(self.S):
                    l = p['last%d_%d' % (c_, s)]
                    new = l
                    for i in range(self.N):
                        new = ite(z3.And(cb == c_, ind == s * self.N + i, i > l), I(i), new)
                    upd['last%d_%d' % (c_, s)] = new
            known = z3.Or([z3.And(cb == c_, ind == x) for c_ in range(self.NC) for x in range(self.NIND)])
            bad = ite(z3.And(z3.Not(known), bad == 0), I(4), bad)                           # something that is no indication was delivered
            upd['bad'] = bad
            upd['incb'] = I(1)
            return [Case(T_, upd)], T_, T_
        if opn == 'CB_EXIT':
            if self.cfg.get('callbacks_raise', True):
                return [Case(ch, {'incb': I(0)}, None, C.K_CB), Case(z3.Not(ch), {'incb': I(0)})], T_, T_
            return [Case(T_, {'incb': I(0)})], T_, T_
        if opn.startswith('CALL_'):
            return self.call(opn[5:], t, th, args)
        raise C.Unsupported('operation ' + opn)

    def call(self, m, t, th, a):
        p = self.pre
        T_, F_ = z3.BoolVal(True), z3.BoolVal(False)
        r = a[0]
        isq = z3.Or([r == QREF + g for g in range(self.G)])
        ist = z3.Or([r == TREF + g for g in range(self.G)])
        cases = []

        def truth(v):
            return z3.And(v != NONE, v != 0)
        if m in ('get', 'put', 'empty', 'qsize', 'task_done', 'full'):
            cases.append(Case(z3.Not(isq), {}, None, C.K_ATTR))
            blocked, blocked_nb = [], []
            for g in range(self.G):
                sel = r == QREF + g
                ql, qm, unf = p['qlen%d' % g], p['qmax%d' % g], p['unf%d' % g]
                slots = [p['q%d_%d' % (g, i)] for i in range(self.CAP)]
                if m == 'empty':
                    cases.append(Case(sel, {}, z3.If(ql == 0, I(1), I(0))))
                elif m == 'qsize':
                    cases.append(Case(sel, {}, ql))
                elif m == 'full':
                    cases.append(Case(sel, {}, z3.If(z3.And(qm > 0, ql >= qm), I(1), I(0))))
                elif m == 'task_done':
                    cases.append(Case(z3.And(sel, unf > 0), {'unf%d' % g: unf - 1}))
                    cases.append(Case(z3.And(sel, unf <= 0), {}, None, C.K_VALUE))
                elif m == 'get':
                    block, tmo = truth(a[1]), a[2] != NONE
                    upd = {'qlen%d' % g: ql - 1}
                    for i in range(self.CAP):
                        upd['q%d_%d' % (g, i)] = slots[i + 1] if i + 1 < self.CAP else I(-1)
                    cases.append(Case(z3.And(sel, ql > 0), upd, slots[0]))
                    cases.append(Case(z3.And(sel, ql == 0, z3.Not(block)), {}, None, C.K_EMPTY))
                    cases.append(Case(z3.And(sel, ql == 0, block), {'ntmo': p['ntmo'] + 1}, None, C.K_EMPTY))
                    blocked.append(z3.And(sel, ql == 0, block, z3.Or(z3.Not(tmo), p['ntmo'] >= self.B)))
                    blocked_nb.append(z3.And(sel, ql == 0, block, z3.Not(tmo)))
                elif m == 'put':
                    block, tmo = truth(a[2]), a[3] != NONE
                    full = z3.And(qm > 0, ql >= qm)
                    over = ql >= self.CAP          # cannot happen: CAP = number of indications in the configuration
                    upd = {'qlen%d' % g: ql + 1, 'unf%d' % g: unf + 1}
                    for i in range(self.CAP):
                        upd['q%d_%d' % (g, i)] = ite(ql == i, a[1], slots[i])
                    cases.append(Case(z3.And(sel, z3.Not(full)), upd))
                    cases.append(Case(z3.And(sel, full), {}, None, C.K_FULL))
                    blocked.append(z3.And(sel, z3.Or(z3.And(full, block, z3.Not(tmo)), z3.And(z3.Not(full), over))))
                    blocked_nb.append(z3.And(sel, z3.Or(z3.And(full, block, z3.Not(tmo)), z3.And(z3.Not(full), over))))
            en = z3.Not(z3.Or(blocked)) if blocked else T_
            en_nb = z3.Not(z3.Or(blocked_nb)) if blocked_nb else T_
            return cases, en, en_nb
        if m in ('start', 'stop', 'stopped', 'is_alive', 'join'):
            iss = r == STREF
            cases.append(Case(z3.Not(z3.Or(ist, iss)), {}, None, C.K_ATTR))
            blocked = []
            # server thread: start() begins serving; join() returns once the server was shut down
            if m == 'start':
                cases.append(Case(iss, {'srv': I(1)}))
            elif m == 'join':
                cases.append(Case(iss, {}))
                blocked.append(z3.And(iss, p['srv'] == 1))
            elif m == 'is_alive':
                cases.append(Case(iss, {}, z3.If(p['srv'] == 1, I(1), I(0))))
            else:
                cases.append(Case(iss, {}, None, C.K_ATTR))
            for g in range(self.G):
                sel = r == TREF + g
                term = self.terminated(g)
                if m == 'start':
                    cases.append(Case(z3.And(sel, p['started%d' % g] == 0), {'started%d' % g: I(1)}))
                    cases.append(Case(z3.And(sel, p['started%d' % g] != 0), {}, None, C.K_RUNTIME))
                elif m == 'stop':
                    cases.append(Case(sel, {'stopev%d' % g: I(1)}))
                elif m == 'stopped':
                    cases.append(Case(sel, {}, p['stopev%d' % g]))
                elif m == 'is_alive':
                    cases.append(Case(sel, {}, z3.If(z3.And(p['started%d' % g] == 1, z3.Not(term)), I(1), I(0))))
                elif m == 'join':
                    # ExceptionHandlingThread.join(): waits for termination, then re-raises the stored exception
                    tmo = a[1] != NONE
                    exc = p['texc%d' % g]
                    cases.append(Case(z3.And(sel, p['started%d' % g] == 0), {}, None, C.K_RUNTIME))
                    cases.append(Case(z3.And(sel, p['started%d' % g] != 0, z3.Or(z3.Not(term), exc == 0)), {}))
                    cases.append(Case(z3.And(sel, p['started%d' % g] != 0, term, exc != 0), {}, None, exc))
                    blocked.append(z3.And(sel, p['started%d' % g] != 0, z3.Not(term), z3.Not(tmo)))
            en = z3.Not(z3.Or(blocked)) if blocked else T_
            return cases, en, en
        if m in ('shutdown', 'server_close'):
            cases.append(Case(r != SREF, {}, None, C.K_ATTR))
            if m == 'shutdown':
                cases.append(Case(r == SREF, {'srv': I(2)}))
                return cases, T_, T_
            cases.append(Case(r == SREF, {'srv': I(3)}))
            if self.cfg['join_on_close']:
                # socketserver.ThreadingMixIn.server_close(): joins the non-daemon request threads
                busy = z3.Or([p['inreq%d' % s] == 1 for s in range(self.S)]) if self.S else F_
                en = z3.Not(z3.And(r == SREF, busy))
                return cases, en, en
            return cases, T_, T_
        raise C.Unsupported('method ' + m)

    def terminated(self, g):
        for t, th in enumerate(self.threads):
            if th['kind'] == 'callback' and th['gen'] == g:
                return self.pre['pc%d' % t] == th['end']
        return z3.BoolVal(False)

    # ------------------------------------------------------------------ transition relation
    def build_transitions(self):
        p = self.pre
        sched = self.choice['sched']
        writers = {}          # var -> list of (selector, value)
        enabled_any, enabled_any_nb, valid = [], [], []
        local_ready, local_sel = [], []
        self._en_by_thread = []
        self.vis_index = {}
        for t, th in enumerate(self.threads):
            prog = th['prog']
            th['end'] = [i for i, ins in enumerate(prog.instrs) if ins[0] == 'end']
            th['end'] = th['end'][0] if th['end'] else -1
        for t, th in enumerate(self.threads):
            prog = th['prog']
            env0 = dict((l, p['L%d.%s' % (t, l)] if l in th['stored'] else I(0)) for l in prog.locals)
            active = z3.BoolVal(True)
            if th['kind'] == 'callback':
                active = p['started%d' % th['gen']] == 1
            # entry: pc 0 may be an invisible instruction; resolve the initial pc/env once
            pc0, envi = self.resolve(prog, 0, dict((l, I(prog.local_init.get(l, 0))) for l in prog.locals))
            th['pc0'], th['env0'] = pc0, envi
            for pos, ins in enumerate(prog.instrs):
                if ins[0] != 'vis':
                    continue
                at = z3.And(p['pc%d' % t] == pos, active)
                cases, en, en_nb = self.op(t, th, ins, env0)
                sel = z3.And(sched == t, at)
                valid.append(z3.And(sel, en))
                if ins[1] in LOCAL_OPS and not (ins[1] == 'MAKE_SERVER' and self.cfg.get('start_may_fail')):
                    local_ready.append(z3.And(at, en))
                    local_sel.append(z3.And(sel, en))
                enabled_any.append(z3.And(at, en))
                self._en_by_thread.append((t, z3.And(at, en)))
                enabled_any_nb.append(z3.And(at, en_nb))
                # per case: continue at nxt (or the handler) and fold the invisible instructions
                merged_pc, merged_env, merged_upd = None, None, {}
                keys = set()
                for cs in cases:
                    keys.update(cs.upd)
                for cs in reversed(cases):
                    env = dict(env0)
                    raising = not (isinstance(cs.exc, int) and cs.exc == 0)
                    if raising:
                        env['$exc'] = I(cs.exc) if isinstance(cs.exc, int) else cs.exc
                        npc, nenv = self.resolve(prog, ins[5], env)
                    else:
                        env[ins[3]] = cs.res
                        npc, nenv = self.resolve(prog, ins[4], env)
                    upd = dict((k_, cs.upd.get(k_, p[k_])) for k_ in keys)
                    if merged_pc is None:
                        merged_pc, merged_env, merged_upd = npc, nenv, upd
                    else:
                        merged_pc = ite(cs.guard, npc, merged_pc)
                        merged_env = dict((n, ite(cs.guard, nenv[n], merged_env[n])) for n in nenv)
                        merged_upd = dict((k_, ite(cs.guard, upd[k_], merged_upd[k_])) for k_ in keys)
                writers.setdefault('pc%d' % t, []).append((sel, merged_pc))
                for n, v in merged_env.items():
                    if n in th['stored'] and not v.eq(env0[n]):
                        writers.setdefault('L%d.%s' % (t, n), []).append((sel, v))
                for k_, v in merged_upd.items():
                    writers.setdefault(k_, []).append((sel, v))
        # context-switch accounting: a switch away from a thread that is still enabled is a preemption
        thr_en = []
        for t, th in enumerate(self.threads):
            thr_en.append(z3.Or([e for (tt, e) in self._en_by_thread if tt == t] or [z3.BoolVal(False)]))
        prev_enabled = z3.Or([z3.And(p['lastt'] == t, thr_en[t]) for t in range(self.T)])
        real = sched < self.T
        writers.setdefault('npre', []).append((z3.And(real, sched != p['lastt'], prev_enabled), p['npre'] + 1))
        writers.setdefault('lastt', []).append((real, sched))
        self.next = {}
        for name, v in p.items():
            e = v
            for sel, val in reversed(writers.get(name, [])):
                e = z3.If(sel, val, e)
            self.next[name] = e
        main_done = p['pc0'] == self.threads[0]['end']
        self.main_done = main_done
        any_en = z3.Or(enabled_any)
        self.deadlock = z3.And(z3.Not(main_done), z3.Not(z3.Or(enabled_any_nb)))
        stutter = z3.And(sched == self.T, z3.Or(main_done, z3.Not(any_en)))
        # partial-order reduction: operations that commute with every operation of every other thread
        # (object allocation, sleep) run as soon as their thread reaches them
        self.valid = z3.And(z3.Or(valid + [stutter]), z3.Implies(z3.Or(local_ready), z3.Or(local_sel)) if local_ready else z3.BoolVal(True))

    # ------------------------------------------------------------------ unrolling
    def unroll(self, K):
        self.K = K
        self.steps = []
        names = list(self.pre)
        for k in range(K + 1):
            self.steps.append(dict((n, IV('%s@%d' % (n, k))) for n in names))
        self.chs = []
        for k in range(K):
            self.chs.append(dict((n, (z3.Bool if z3.is_bool(v) else IV)('%s@%d' % (n, k))) for n, v in self.choice.items()))
        over = set(['pc%d' % t for t in range(self.T)])
        for t, th in enumerate(self.threads):
            over.update('L%d.%s' % (t, l) for l in th['env0'] if l in th['stored'])
        cons = [self.steps[0][n] == self.init[n] for n in names if n not in over]
        for t, th in enumerate(self.threads):
            cons.append(self.steps[0]['pc%d' % t] == th['pc0'])
            for l, v in th['env0'].items():
                if l in th['stored']:
                    cons.append(self.steps[0]['L%d.%s' % (t, l)] == v)
        for k in range(K):
            sub = [(self.pre[n], self.steps[k][n]) for n in names] + [(v, self.chs[k][n]) for n, v in self.choice.items()]
            cons.append(z3.substitute(self.valid, *sub))
            cons.append(z3.And(self.chs[k]['sched'] >= 0, self.chs[k]['sched'] <= self.T))
            for n in names:
                cons.append(self.steps[k + 1][n] == z3.substitute(self.next[n], *sub))
        return cons

    def at(self, expr, k):
        sub = [(self.pre[n], self.steps[k][n]) for n in self.pre]
        if k < self.K:
            sub += [(v, self.chs[k][n]) for n, v in self.choice.items()]
        return z3.substitute(expr, *sub)

    # ------------------------------------------------------------------ trace extraction
    def trace(self, m):
        out = []
        for k in range(self.K):
            t = m.eval(self.chs[k]['sched'], model_completion=True).as_signed_long()
            if t >= self.T:
                continue
            th = self.threads[t]
            pc = m.eval(self.steps[k]['pc%d' % t], model_completion=True).as_signed_long()
            ins = th['prog'].instrs[pc]
            if ins[0] != 'vis':
                continue
            ch = z3.is_true(m.eval(self.chs[k]['ch'], model_completion=True))
            opq = dict((n, z3.is_true(m.eval(self.chs[k][n], model_completion=True))) for n in self.chs[k] if n.startswith('opq'))
            out.append({'step': k, 'thread': th['name'], 'op': ins[1], 'info': ins[6], 'choice': ch, 'opaque': opq, 'pc': pc})
        return out

    def state_at(self, m, k, names=None):
        return dict((n, m.eval(self.steps[k][n], model_completion=True).as_signed_long()) for n in (names or self.pre))
