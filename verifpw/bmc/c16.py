"""C16 (E3): every interleaving of indication senders, the callback thread and a main thread
calling start()/stop(), decided by z3 over thread programs compiled from the current AST.

Jobs (python -m verifpw.bmc.c16 <job> --timeout T; VERIF_PART selects the configuration):
  safety   no schedule of <= K visible steps violates the property
  reach    vacuity twin: the clean run (everything acknowledged, delivered, stop() returned) IS reachable
Each configuration states senders x indications, callbacks, queue bound, number of start()
calls, timeout / poll budgets and K; a third query decides whether K truncates any run
within the budgets (if it does the verdict is only "no counterexample up to K").
"""
import json
import os
import sys
import time
import z3

HERE = os.path.dirname(os.path.dirname(os.path.dirname(os.path.abspath(__file__))))
for p_ in (HERE, '/repo'):
    if p_ not in sys.path:
        sys.path.insert(0, p_)
import warnings
warnings.simplefilter('ignore')
import pywbem
import pywbem._listener as lm
from verifpw.bmc import compiler as C
from verifpw.bmc.encode import I
from verifpw.bmc.rr import RRModel
from verifpw import kf, mode

HID = 'verifpw.bmc.c16:safety'

# configurations: (name, senders, inds, callbacks, maxq, starts, start_may_fail, K)
QUICK = [
    dict(name='1x1-cb1-unbounded', senders=1, inds=1, callbacks=1, maxq=0, starts=1),
    dict(name='1x2-cb2-unbounded', senders=1, inds=2, callbacks=2, maxq=0, starts=1),
    dict(name='2x1-cb1-bounded1', senders=2, inds=1, callbacks=1, maxq=1, starts=1),
    dict(name='1x1-cb1-restart', senders=1, inds=1, callbacks=1, maxq=0, starts=2),
    dict(name='1x3-cb1-bounded1', senders=1, inds=3, callbacks=1, maxq=1, starts=1, rounds=3, goal='some-refused'),
]
THOROUGH = [
    dict(name='1x1-cb1-unbounded', senders=1, inds=1, callbacks=1, maxq=0, starts=1, rounds=6),
    dict(name='1x2-cb2-unbounded', senders=1, inds=2, callbacks=2, maxq=0, starts=1, rounds=5),
    dict(name='2x1-cb1-bounded1', senders=2, inds=1, callbacks=1, maxq=1, starts=1, rounds=5),
    dict(name='1x1-cb1-restart', senders=1, inds=1, callbacks=1, maxq=0, starts=2, rounds=5),
    dict(name='1x3-cb1-bounded1', senders=1, inds=3, callbacks=1, maxq=1, starts=1, rounds=5, goal='some-refused'),
    dict(name='2x2-cb1-bounded2', senders=2, inds=2, callbacks=1, maxq=2, starts=1, rounds=4),
    dict(name='3x1-cb2-unbounded', senders=3, inds=1, callbacks=2, maxq=0, starts=1, rounds=4),
    dict(name='1x1-cb1-startfail', senders=1, inds=1, callbacks=1, maxq=0, starts=1, start_may_fail=True, rounds=4),
    dict(name='2x1-cb1-restart', senders=2, inds=1, callbacks=1, maxq=2, starts=2, rounds=4),
    dict(name='3x3-cb2-bounded2', senders=3, inds=3, callbacks=2, maxq=2, starts=1, rounds=3, goal='some-refused'),
    dict(name='3x2-cb2-unbounded', senders=3, inds=2, callbacks=2, maxq=0, starts=1, rounds=3),
    dict(name='1x1-cb1-stop-twice', senders=1, inds=1, callbacks=1, maxq=0, starts=1, rounds=4, script=['stop', 'start', 'stop', 'stop']),
    dict(name='1x2-cb1-more-timeouts', senders=1, inds=2, callbacks=1, maxq=1, starts=1, rounds=4, max_timeouts=4, max_sleeps=4),
]
DEFAULTS = dict(max_timeouts=2, max_sleeps=2, rounds=4, start_may_fail=False, callbacks_raise=True)

BAD_TEXT = {1: 'an indication was delivered twice to the same callback', 2: 'a callback ran before an earlier registered one for the same indication',
            3: 'indications of one sender were delivered out of order', 4: 'something that is not an accepted indication was delivered',
            7: 'two responses were sent for one request'}


def listener_consts(maxq):
    l = lm.WBEMListener('localhost', http_port=5000, max_ind_queue_size=maxq)
    out = {}
    for k, v in vars(l).items():
        if v is None:
            out[k] = C.NONE
        elif isinstance(v, bool):
            out[k] = int(v)
        elif isinstance(v, int):
            out[k] = v if -100 <= v <= 100 else C.OPQ
        else:
            out[k] = C.OPQ
    return out


def server_joins_handlers():
    """socketserver.ThreadingMixIn.server_close() joins the request threads iff block_on_close and not daemon_threads."""
    cls = lm.ThreadedHTTPServer
    return bool(getattr(cls, 'block_on_close', False)) and not bool(getattr(cls, 'daemon_threads', False))


def main_script(cfg):
    calls = cfg.get('script') or ['start', 'stop'] * cfg['starts']
    return 'def verif_main(self):\n' + ''.join('    self.%s()\n' % c for c in calls)


def build(cfg):
    cfg = dict(DEFAULTS, **cfg)
    cfg['join_on_close'] = server_joins_handlers()
    consts = listener_consts(cfg['maxq'])
    comp = C.Compiler(lm, consts=consts, ncallbacks=cfg['callbacks'])
    for a in comp.shared:
        consts.pop(a, None)
    threads = [dict(name='main', kind='main', prog=C.compile_thread(comp, 'main', 'main', main_script(cfg)))]
    # round-robin order: main, senders, callback threads (the order in which a clean run needs them)
    for s in range(cfg['senders']):
        threads.append(dict(name='sender%d' % s, kind='sender', sender=s, prog=C.compile_thread(comp, 'sender%d' % s, 'sender')))
    for g in range(cfg['starts']):
        threads.append(dict(name='callback%d' % g, kind='callback', gen=g, prog=C.compile_thread(comp, 'callback%d' % g, 'callback')))
    cfg['private_attrs'] = C.privatize(threads)
    model = RRModel(comp, threads, cfg)
    return comp, model, cfg


def violation_terms(model, cfg, p):
    """dict name -> z3 predicate over the state p (a dict of z3 expressions)."""
    S, N, NC, G = model.S, model.N, model.NC, model.G
    allowed_main = [0]
    if cfg.get('start_may_fail'):
        # start() is documented to raise Listener*Error / OSError when the server cannot be created
        allowed_main += [i for i, c in enumerate(model.comp.exc_classes) if c is not None and issubclass(c, (OSError, pywbem.ListenerError))]
    main_done = p['pc0'] == model.threads[0]['end']
    terms = {}
    terms['order-or-duplicate'] = p['bad'] != 0
    terms['main-raised'] = z3.And([p['mainexc'] != k for k in set(allowed_main)])
    quiet = z3.And([main_done] + [p['inreq%d' % s] == 0 for s in range(S)])
    lost, refused_delivered = [], []
    for s in range(S):
        for i in range(N):
            for c in range(NC):
                d = p['dc%d_%d' % (c, s * N + i)]
                lost.append(z3.And(p['ack%d_%d' % (s, i)] == 1, d != 1))
                refused_delivered.append(z3.And(p['ack%d_%d' % (s, i)] == 2, d != 0))
    terms['acknowledged-not-delivered-once'] = z3.And(quiet, z3.Or(lost))
    terms['refused-but-delivered'] = z3.And(quiet, z3.Or(refused_delivered))
    alive = []
    for t, th in enumerate(model.threads):
        if th['kind'] == 'callback':
            g = th['gen']
            alive.append(z3.And(p['started%d' % g] == 1, p['pc%d' % t] != th['end']))
    terms['thread-left-behind'] = z3.And(main_done, z3.Or(alive))
    terms['not-restartable'] = z3.And(main_done, p['mainexc'] == 0, z3.Or(p['A._ind_queue'] != C.NONE, p['A._callback_thread'] != C.NONE, p['srv'] == 1))
    return terms


def clean_goal(model, p, goal='all-success'):
    g = [p['pc0'] == model.threads[0]['end'], p['mainexc'] == 0, p['bad'] == 0]
    if goal == 'some-refused':
        # every indication answered, at least one refused with queue-full, the accepted ones delivered once
        refused = []
        for s in range(model.S):
            for i in range(model.N):
                a = p['ack%d_%d' % (s, i)]
                g.append(z3.Or(a == 1, a == 2))
                refused.append(a == 2)
                for c in range(model.NC):
                    g.append(p['dc%d_%d' % (c, s * model.N + i)] == z3.If(a == 1, I(1), I(0)))
        g.append(z3.Or(refused))
        return z3.And(g)
    for s in range(model.S):
        for i in range(model.N):
            g.append(p['ack%d_%d' % (s, i)] == 1)
            for c in range(model.NC):
                g.append(p['dc%d_%d' % (c, s * model.N + i)] == 1)
    return z3.And(g)


def run_config(cfg, deadline, want='safety'):
    t0 = time.time()
    comp, model, cfg = build(cfg)
    R = cfg['rounds']
    cons = list(model.encode(R))
    fin = model.final
    # outside the bound: runs in which a thread hits its loop-unrolling limit, polls more often than the budget
    cons += [fin['trunc%d' % t] == 0 for t in range(model.T)]
    cons.append(fin['nsleep'] <= cfg['max_sleeps'])
    t_enc = time.time() - t0
    out = {'config': cfg, 'rounds': R, 'encode_s': round(t_enc, 2),
           'threads': [(th['name'], len(th['prog'].instrs), len(th['order']), model.unroll_bound(th)) for th in model.threads],
           'instances': len(model.log), 'state_vars': len(model.init), 'methods': sorted(comp.used_methods), 'shared': sorted(comp.shared),
           'private_attrs': cfg.get('private_attrs'), 'queries': []}

    def check(extra, label):
        s = z3.SolverFor('QF_BV')
        s.add(cons)
        s.add(extra)
        s.set('timeout', max(1000, int((deadline - time.time()) * 1000)))
        t1 = time.time()
        r = str(s.check())
        m = s.model() if r == 'sat' else None
        out['queries'].append({'query': label, 'result': r, 'solver_s': round(time.time() - t1, 2)})
        return r, m
    if want == 'reach':
        r, m = check(clean_goal(model, fin, cfg.get('goal', 'all-success')), 'clean run reachable (%s)' % cfg.get('goal', 'all-success'))
        out['status'] = {'sat': 'REACHED', 'unsat': 'UNREACHABLE'}.get(r, 'UNKNOWN')
        return out, model, None
    points = []          # (label, name, predicate)
    bd = dict(model.boundaries)
    for (rt, st) in model.boundaries:
        for n, e in violation_terms(model, cfg, st).items():
            points.append((rt, n, e))
    en = model.enabled_now(fin)
    points.append(((R, 'final'), 'deadlock', z3.And(fin['pc0'] != model.threads[0]['end'], z3.Not(z3.Or(en)))))
    r, m = check(z3.Or([e for (_, _, e) in points]), 'any violation within the bounds')
    if r == 'sat':
        which = None
        for (rt, n, e) in points:
            if z3.is_true(m.eval(e, model_completion=True)):
                which, where, st = n, rt, bd.get(rt, fin)
                break
        detail = which
        bad = m.eval(st['bad'], model_completion=True).as_signed_long()
        mexc = m.eval(st['mainexc'], model_completion=True).as_signed_long()
        if which == 'order-or-duplicate':
            detail = BAD_TEXT.get(bad, 'violation code %d' % bad)
        elif which == 'main-raised':
            cls = comp.exc_classes[mexc] if 0 < mexc < len(comp.exc_classes) else None
            detail = 'start()/stop() raised %s' % (cls.__name__ if cls else mexc)
        out['status'] = 'VIOLATION'
        return out, model, {'kind': which, 'detail': detail, 'at': list(where), 'trace': model.schedule(m)}
    out['status'] = 'PROVED' if r == 'unsat' else 'UNKNOWN'
    return out, model, None


def configs():
    return QUICK if mode.tier() == 'quick' else THOROUGH


def job(want):
    def f(deadline, part, nparts):
        cfgs = [c for i, c in enumerate(configs()) if i % nparts == part]
        res = {'paths': 0, 'queries': 0, 'confirmed_paths': 0, 'cexs': [], 'extra': {'configs': []}}
        status = 'CONFIRMED'
        for cfg in cfgs:
            try:
                out, model, cex = run_config(cfg, deadline, want)
            except C.Unsupported as e:
                res['extra']['configs'].append({'config': cfg, 'status': 'ENCODING-UNSUPPORTED', 'reason': str(e)})
                res['messages'] = [{'state': 'encoding_unsupported', 'message': str(e)}]
                status = 'ERROR'
                continue
            res['extra']['configs'].append(out)
            res['queries'] += len(out['queries'])
            res['paths'] += 1
            if want == 'reach':
                if out['status'] == 'REACHED':
                    # the twin convention of the runner: a reach job must come back REFUTED
                    res['cexs'].append({'args': {'config': cfg['name']}, 'message': 'clean run reachable'})
                elif status == 'CONFIRMED':
                    status = 'UNKNOWN' if out['status'] == 'UNKNOWN' else 'CONFIRMED'
                continue
            if cex:
                sched = [[e['thread'], e['op'], bool(e['choice']), e['opaque']] for e in cex['trace']]
                res['cexs'].append({'args': {'config': dict(out['config']), 'schedule': sched, 'kind': cex['kind']},
                                    'message': '%s [%s] (%d steps)' % (cex['detail'], cfg['name'], len(cex['trace']))})
            elif out['status'] == 'PROVED':
                res['confirmed_paths'] += 1
            else:
                status = 'UNKNOWN'
        res['status'] = status
        return res
    return f


def replay_safety(config, schedule, kind=None):
    from verifpw.bmc.replay16 import replay
    return replay(config, schedule, kind)


if __name__ == '__main__':
    from verifpw.e2main import main
    main({'safety': job('safety'), 'reach': job('reach')})
