"""E3 front end: the thread bodies of the WBEM listener, compiled from the CURRENT AST of
/repo/pywbem/_listener.py into a small step IR.

The compiler accepts the statement/expression forms that occur in the listener's
start/stop/delivery code (if/while/for-over-callbacks/try-except/assert/raise/return,
attribute loads and stores on the listener, calls on queue/thread/server objects, calls of
other listener methods which are inlined).  Anything else raises Unsupported with the
offending source line: the check then ends as a harness error, never as "holds".

IR (per thread): a list of instructions
    ('set', dst, E, nxt)                       invisible: local := pure expression
    ('br', E, then, els)                       invisible: branch on truthiness
    ('jmp', nxt)                               invisible
    ('vis', op, [E...], dst, nxt, on_exc, info) VISIBLE step: shared-state operation; may raise
    ('end',)                                   thread finished
Pure expressions E over thread locals:
    ('const', int) ('loc', name) ('not', E) ('eq', E, E) ('ne', E, E) ('truth', E)
    ('add', E, E) ('sub', E, E) ('lt'|'le'|'gt'|'ge', E, E) ('opaque', n) ('excin', [kinds])
Every Python value is an integer: small ints / bools as themselves, None = NONE, object
references as tagged integers (queue QREF+g, callback thread TREF+g, server SREF, server
thread STREF, listener LISTENER); strings and other immaterial values are OPQ.
"""
import ast
import inspect
import queue as _queue

NONE = -200
OPQ = 177
QREF = 200
TREF = 210
SREF = 220
STREF = 221
LISTENER = 230
HANDLER = 231
EXCVAL = 300          # exception objects used as values: EXCVAL + kind


class Unsupported(Exception):
    pass


class CallbackFailure(Exception):
    """Stands for any Exception subclass a user callback raises."""


class StartFailure(OSError):
    """Stands for the OSError make_server() raises when the port cannot be bound."""


# exception kinds: index -> real class (issubclass decides which except clause catches it)
EXC_CLASSES = [None, _queue.Empty, _queue.Full, AttributeError, CallbackFailure, ValueError, AssertionError,
               StartFailure, RuntimeError, TypeError]
K_EMPTY, K_FULL, K_ATTR, K_CB, K_VALUE, K_ASSERT, K_OS, K_RUNTIME, K_TYPE = range(1, 10)

QUEUE_METHODS = {'get', 'put', 'empty', 'qsize', 'task_done', 'full', 'get_nowait', 'put_nowait'}
THREAD_METHODS = {'start', 'stop', 'stopped', 'join', 'is_alive'}
SERVER_METHODS = {'shutdown', 'server_close'}
PURE_FUNCS = {'_format', 'getattr', 'str', 'repr', 'len', 'isinstance', 'int', 'type', 'id'}


def const(v):
    return ('const', v)


class Label:
    def __init__(self):
        self.pos = None


class ThreadProgram:
    def __init__(self, name):
        self.name = name
        self.instrs = []
        self.locals = set(['$exc'])
        self.local_init = {}

    def emit(self, ins):
        self.instrs.append(ins)
        return len(self.instrs) - 1

    def finish(self):
        def r(x):
            if isinstance(x, Label):
                if x.pos is None:
                    raise Unsupported('internal: unplaced label')
                return x.pos
            return x
        out = []
        for ins in self.instrs:
            out.append(tuple(r(x) for x in ins))
        self.instrs = out
        return self


class Compiler:
    """Compiles methods of one class (listener mode) or a statement list of the request
    handler (fragment mode) into a ThreadProgram."""

    def __init__(self, module, cls_name='WBEMListener', consts=None, ncallbacks=1):
        self.module = module
        self.src = inspect.getsource(module)
        self.tree = ast.parse(self.src)
        self.classes = dict((n.name, n) for n in self.tree.body if isinstance(n, ast.ClassDef))
        self.cls = self.classes[cls_name]
        self.methods = dict((n.name, n) for n in self.cls.body if isinstance(n, ast.FunctionDef))
        self.properties = set(n.name for n in self.cls.body if isinstance(n, ast.FunctionDef) and any(
            isinstance(d, ast.Name) and d.id == 'property' for d in n.decorator_list))
        # shared attributes = everything a method other than __init__ stores into self
        self.shared = set()
        for name, fn in self.methods.items():
            if name == '__init__':
                continue
            for n in ast.walk(fn):
                if isinstance(n, (ast.Assign, ast.AugAssign, ast.AnnAssign)):
                    tgts = n.targets if isinstance(n, ast.Assign) else [n.target]
                    for t in tgts:
                        for tt in ast.walk(t):
                            if isinstance(tt, ast.Attribute) and isinstance(tt.value, ast.Name) and tt.value.id == 'self' and isinstance(tt.ctx, ast.Store):
                                self.shared.add(tt.attr)
        self.consts = dict(consts or {})
        self.ncallbacks = ncallbacks
        self.exc_classes = list(EXC_CLASSES)
        self.used_methods = set()
        self.nopq = 0
        self.ninl = 0

    # ------------------------------------------------------------ helpers
    def kind_of_class(self, cls):
        for i, c in enumerate(self.exc_classes):
            if c is cls:
                return i
        self.exc_classes.append(cls)
        return len(self.exc_classes) - 1

    def resolve_class(self, node):
        """ast expression naming an exception class -> real class (evaluated in the module)."""
        try:
            obj = eval(compile(ast.Expression(body=node), '<exc>', 'eval'), vars(self.module))
        except Exception:
            raise Unsupported('cannot resolve exception class %s' % ast.dump(node))
        return obj

    def catches(self, typ_node):
        """list of kinds caught by `except <typ_node>`."""
        if typ_node is None:
            return (BaseException,)
        obj = self.resolve_class(typ_node)
        classes = obj if isinstance(obj, tuple) else (obj,)
        return classes

    def opaque(self):
        self.nopq += 1
        return ('opaque', self.nopq)

    def where(self, node):
        return 'line %s: %s' % (getattr(node, 'lineno', '?'), ast.get_source_segment(self.src, node) or type(node).__name__)


class Ctx:
    """Compilation context of one inline instance."""
    def __init__(self, prog, comp, listener_names, handler_names, prefix, on_exc, ret=None):
        self.prog, self.comp = prog, comp
        self.listener_names, self.handler_names = listener_names, handler_names
        self.prefix = prefix
        self.env = {}
        self.on_exc = on_exc
        self.ret = ret            # (label, retvar)
        self.loop = None          # (continue_label, break_label)
        self.cur_exc = None       # local holding the exception of the innermost handler
        self.exc_locals = {}      # python local name -> kind (for `raise new_exc`)

    def local(self, name):
        if name not in self.env:
            self.env[name] = self.prefix + name
            self.prog.locals.add(self.env[name])
        return self.env[name]

    def temp(self, hint='t'):
        c = self.comp
        c.ninl += 1
        n = '%s$%s%d' % (self.prefix, hint, c.ninl)
        self.prog.locals.add(n)
        return n

    def child(self, **kw):
        x = Ctx(self.prog, self.comp, self.listener_names, self.handler_names, self.prefix, self.on_exc, self.ret)
        x.env, x.loop, x.cur_exc, x.exc_locals = self.env, self.loop, self.cur_exc, self.exc_locals
        for k, v in kw.items():
            setattr(x, k, v)
        return x

    # ---------------------------------------------------------------- emit helpers
    def place(self, label):
        label.pos = len(self.prog.instrs)

    def vis(self, op, args, info, dst=None):
        dst = dst or self.temp(op.lower())
        nxt = Label()
        self.prog.emit(('vis', op, list(args), dst, nxt, self.on_exc, info))
        self.place(nxt)
        return ('loc', dst)

    def set(self, dst, e):
        nxt = Label()
        self.prog.emit(('set', dst, e, nxt))
        self.place(nxt)

    def jmp(self, label):
        self.prog.emit(('jmp', label))

    def br(self, e, then, els):
        self.prog.emit(('br', e, then, els))

    def raise_kind(self, kind_expr):
        self.set('$exc', kind_expr)
        self.jmp(self.on_exc)

    # ---------------------------------------------------------------- expressions
    def is_listener(self, node):
        return isinstance(node, ast.Name) and node.id in self.listener_names

    def is_handler(self, node):
        return isinstance(node, ast.Name) and node.id in self.handler_names

    def expr(self, node):
        c = self.comp
        if isinstance(node, ast.Constant):
            v = node.value
            if v is None:
                return const(NONE)
            if v is True:
                return const(1)
            if v is False:
                return const(0)
            if isinstance(v, int):
                return const(v if -100 <= v <= 100 else OPQ)
            if isinstance(v, float):
                return const(OPQ if v else 0)
            if isinstance(v, (str, bytes)):
                return const(OPQ if v else 0)
            raise Unsupported(c.where(node))
        if isinstance(node, ast.Name):
            if self.is_listener(node):
                return const(LISTENER)
            if self.is_handler(node):
                return const(HANDLER)
            if node.id in self.env:
                return ('loc', self.env[node.id])
            return const(OPQ)           # module global (errno, ssl, ...): immaterial
        if isinstance(node, ast.Attribute):
            return self.attribute(node)
        if isinstance(node, ast.Call):
            return self.call(node)
        if isinstance(node, ast.UnaryOp):
            if isinstance(node.op, ast.Not):
                return ('not', self.expr(node.operand))
            if isinstance(node.op, ast.USub):
                return ('sub', const(0), self.expr(node.operand))
            raise Unsupported(c.where(node))
        if isinstance(node, ast.Compare):
            if len(node.ops) != 1:
                raise Unsupported(c.where(node))
            a, b = self.expr(node.left), self.expr(node.comparators[0])
            op = node.ops[0]
            if OPQ in (a[1] if a[0] == 'const' else None, b[1] if b[0] == 'const' else None):
                return c.opaque()
            if isinstance(op, (ast.Is, ast.Eq)):
                return ('eq', a, b)
            if isinstance(op, (ast.IsNot, ast.NotEq)):
                return ('ne', a, b)
            for t, n in ((ast.Lt, 'lt'), (ast.LtE, 'le'), (ast.Gt, 'gt'), (ast.GtE, 'ge')):
                if isinstance(op, t):
                    return (n, a, b)
            raise Unsupported(c.where(node))
        if isinstance(node, ast.BoolOp):
            res = self.temp('bool')
            end = Label()
            for i, v in enumerate(node.values):
                e = self.expr(v)
                self.set(res, e)
                if i < len(node.values) - 1:
                    cont = Label()
                    if isinstance(node.op, ast.And):
                        self.br(('loc', res), cont, end)
                    else:
                        self.br(('loc', res), end, cont)
                    self.place(cont)
            self.jmp(end)
            self.place(end)
            return ('loc', res)
        if isinstance(node, ast.IfExp):
            res = self.temp('ifexp')
            t, f, end = Label(), Label(), Label()
            self.br(self.expr(node.test), t, f)
            self.place(t)
            self.set(res, self.expr(node.body))
            self.jmp(end)
            self.place(f)
            self.set(res, self.expr(node.orelse))
            self.jmp(end)
            self.place(end)
            return ('loc', res)
        if isinstance(node, ast.Tuple):
            es = [self.expr(e) for e in node.elts]
            return es[0] if es else const(OPQ)
        if isinstance(node, ast.Subscript):
            self.expr(node.value)
            return const(OPQ)
        if isinstance(node, ast.JoinedStr):
            for v in node.values:
                if isinstance(v, ast.FormattedValue):
                    self.expr(v.value)
            return const(OPQ)
        if isinstance(node, ast.BinOp):
            a, b = self.expr(node.left), self.expr(node.right)
            if isinstance(node.op, ast.Add):
                return ('add', a, b)
            if isinstance(node.op, ast.Sub):
                return ('sub', a, b)
            return const(OPQ)
        if isinstance(node, (ast.List, ast.Dict, ast.Set)):
            return const(OPQ)
        raise Unsupported('expression ' + c.where(node))

    def attribute(self, node):
        c = self.comp
        if self.is_listener(node.value):
            a = node.attr
            if a == 'logger':
                return const(OPQ)
            if a in c.shared:
                return self.vis('LOADATTR', [], {'attr': a, 'line': node.lineno})
            if a in c.consts:
                return const(c.consts[a])
            if a in c.properties:
                return self.inline(c.methods[a], [], {}, node)
            if a == 'logger':
                return const(OPQ)
            raise Unsupported('listener attribute %r is neither stored by a method nor a declared constant (%s)' % (a, c.where(node)))
        if self.is_handler(node.value):
            return const(OPQ)
        # x.y.z on other objects
        if isinstance(node.value, ast.Attribute) and self.is_handler(node.value.value) and node.value.attr == 'server' and node.attr == 'listener':
            return const(LISTENER)
        self.expr(node.value)
        return const(OPQ)

    def call(self, node):
        c = self.comp
        f = node.func
        kw = dict((k.arg, k.value) for k in node.keywords)
        if None in kw:
            raise Unsupported('**kwargs ' + c.where(node))
        if isinstance(f, ast.Attribute):
            recv, m = f.value, f.attr
            # logger.<level>(...) : arguments are evaluated (they may touch shared state), the call itself is a no-op
            if isinstance(recv, ast.Attribute) and recv.attr == 'logger' or (isinstance(recv, ast.Name) and recv.id == 'logger'):
                for a in node.args:
                    self.expr(a)
                for v in kw.values():
                    self.expr(v)
                return const(NONE)
            if self.is_listener(recv):
                if m not in c.methods:
                    raise Unsupported('unknown listener method ' + c.where(node))
                return self.inline(c.methods[m], node.args, kw, node)
            if self.is_handler(recv):
                for a in node.args:
                    self.expr(a)
                if m == 'send_success_response':
                    return self.vis('RESPOND', [const(1)], {'line': node.lineno})
                if m == 'send_error_response':
                    return self.vis('RESPOND', [const(2)], {'line': node.lineno})
                if m == 'send_http_error':
                    return self.vis('RESPOND', [const(2)], {'line': node.lineno})
                raise Unsupported('handler method ' + c.where(node))
            if isinstance(recv, ast.Name) and recv.id == 'queue' and m == 'Queue':
                ms = kw.get('maxsize', node.args[0] if node.args else None)
                return self.vis('NEWQUEUE', [self.expr(ms) if ms is not None else const(0)], {'line': node.lineno})
            if m in QUEUE_METHODS or m in THREAD_METHODS or m in SERVER_METHODS:
                r = self.expr(recv)
                info = {'method': m, 'line': node.lineno}
                if m in ('get', 'get_nowait'):
                    block = kw.get('block', node.args[0] if len(node.args) > 0 else None)
                    tmo = kw.get('timeout', node.args[1] if len(node.args) > 1 else None)
                    be = self.expr(block) if block is not None else const(1)
                    te = self.expr(tmo) if tmo is not None else const(NONE)
                    if m == 'get_nowait':
                        be = const(0)
                    return self.vis('CALL_get', [r, be, te], info)
                if m in ('put', 'put_nowait'):
                    item = self.expr(node.args[0] if node.args else kw['item'])
                    block = kw.get('block', node.args[1] if len(node.args) > 1 else None)
                    tmo = kw.get('timeout', node.args[2] if len(node.args) > 2 else None)
                    be = self.expr(block) if block is not None else const(1)
                    te = self.expr(tmo) if tmo is not None else const(NONE)
                    if m == 'put_nowait':
                        be = const(0)
                    return self.vis('CALL_put', [r, item, be, te], info)
                if m == 'join':
                    tmo = kw.get('timeout', node.args[0] if node.args else None)
                    te = self.expr(tmo) if tmo is not None else const(NONE)
                    return self.vis('CALL_join', [r, te], info)
                if node.args or kw:
                    raise Unsupported('arguments to %s() %s' % (m, c.where(node)))
                return self.vis('CALL_' + m, [r], info)
            # method of an immaterial object (e.g. ctx.load_cert_chain)
            raise Unsupported('call ' + c.where(node))
        if isinstance(f, ast.Name):
            n = f.id
            if n == 'sleep':
                for a in node.args:
                    self.expr(a)
                return self.vis('SLEEP', [], {'line': node.lineno})
            if n in self.env and n == 'callback':
                ind = self.expr(node.args[0])
                for a in node.args[1:]:
                    self.expr(a)
                self.vis('CB_ENTER', [('loc', self.env[n]), ind], {'line': node.lineno})
                return self.vis('CB_EXIT', [('loc', self.env[n]), ind], {'line': node.lineno})
            if n == 'CallbackThread':
                tgt = kw.get('target')
                if not (isinstance(tgt, ast.Attribute) and self.is_listener(tgt.value) and tgt.attr == '_callback_run'):
                    raise Unsupported('callback thread target ' + c.where(node))
                c.used_methods.add('_callback_run')
                d = kw.get('daemon')
                return self.vis('NEWTHREAD', [self.expr(d) if d is not None else const(0)], {'line': node.lineno})
            if n == 'ServerThread':
                return self.vis('NEWSTHREAD', [], {'line': node.lineno})
            if n == 'make_server':
                return self.vis('MAKE_SERVER', [], {'line': node.lineno})
            if n in PURE_FUNCS:
                for a in node.args:
                    self.expr(a)
                return c.opaque() if n in ('getattr', 'isinstance') else const(OPQ)
            # exception constructors used as values: `new_exc = ListenerCertificateError(...)`
            try:
                obj = c.resolve_class(f)
            except Unsupported:
                obj = None
            if isinstance(obj, type) and issubclass(obj, BaseException):
                for a in node.args:
                    self.expr(a)
                return const(EXCVAL + c.kind_of_class(obj))
            raise Unsupported('call ' + c.where(node))
        raise Unsupported('call ' + c.where(node))

    def inline(self, fn, args, kw, node):
        c = self.comp
        c.used_methods.add(fn.name)
        if getattr(self, '_depth', 0) > 6:
            raise Unsupported('inlining too deep at ' + c.where(node))
        params = [a.arg for a in fn.args.args][1:]
        defaults = fn.args.defaults
        vals = {}
        for i, a in enumerate(args):
            vals[params[i]] = self.expr(a)
        for k, v in kw.items():
            if k not in params:
                raise Unsupported('keyword %r %s' % (k, c.where(node)))
            vals[k] = self.expr(v)
        for i, p in enumerate(params):
            if p not in vals:
                di = i - (len(params) - len(defaults))
                if di < 0:
                    raise Unsupported('missing argument %r %s' % (p, c.where(node)))
                vals[p] = Ctx(self.prog, c, set(), set(), '', self.on_exc).expr(defaults[di])
        c.ninl += 1
        sub = Ctx(self.prog, c, {'self'}, set(), '%s#%d.' % (fn.name, c.ninl), self.on_exc)
        sub._depth = getattr(self, '_depth', 0) + 1
        retvar = sub.temp('ret')
        end = Label()
        sub.ret = (end, retvar)
        for p in params:
            sub.set(sub.local(p), vals[p])
        sub.set(retvar, const(NONE))
        sub.block(fn.body)
        sub.jmp(end)
        self.place(end)
        return ('loc', retvar)

    # ---------------------------------------------------------------- statements
    def block(self, stmts):
        for s in stmts:
            self.stmt(s)

    def static_truth(self, e):
        if e[0] == 'const':
            return e[1] not in (NONE, 0)
        if e[0] == 'not' and e[1][0] == 'const':
            return e[1][1] in (NONE, 0)
        return None

    def stmt(self, s):
        c = self.comp
        if isinstance(s, ast.Expr):
            if isinstance(s.value, ast.Constant):
                return
            self.expr(s.value)
            return
        if isinstance(s, ast.Pass):
            return
        if isinstance(s, ast.Assign):
            if len(s.targets) != 1:
                raise Unsupported(c.where(s))
            t = s.targets[0]
            if isinstance(t, ast.Tuple):
                if isinstance(s.value, ast.Tuple) and len(s.value.elts) == len(t.elts):
                    es = [self.expr(e) for e in s.value.elts]
                else:
                    e0 = self.expr(s.value)
                    es = [e0] + [const(OPQ)] * (len(t.elts) - 1)
                for tt, e in zip(t.elts, es):
                    if not isinstance(tt, ast.Name):
                        raise Unsupported(c.where(s))
                    self.set(self.local(tt.id), e)
                return
            e = self.expr(s.value)
            self.assign(t, e, s)
            if isinstance(t, ast.Name) and e[0] == 'const' and e[1] >= EXCVAL:
                self.exc_locals[t.id] = e[1] - EXCVAL
            return
        if isinstance(s, ast.AugAssign):
            if not isinstance(s.target, ast.Name):
                raise Unsupported(c.where(s))
            cur = ('loc', self.local(s.target.id))
            v = self.expr(s.value)
            if isinstance(s.op, ast.Add):
                self.set(self.local(s.target.id), ('add', cur, v))
            elif isinstance(s.op, ast.Sub):
                self.set(self.local(s.target.id), ('sub', cur, v))
            else:
                raise Unsupported(c.where(s))
            return
        if isinstance(s, ast.If):
            e = self.expr(s.test)
            st = self.static_truth(e)
            if st is True:
                return self.block(s.body)
            if st is False:
                return self.block(s.orelse)
            t, f, end = Label(), Label(), Label()
            self.br(e, t, f)
            self.place(t)
            self.block(s.body)
            self.jmp(end)
            self.place(f)
            self.block(s.orelse)
            self.jmp(end)
            self.place(end)
            return
        if isinstance(s, ast.While):
            if s.orelse:
                raise Unsupported('while/else ' + c.where(s))
            head, body, end = Label(), Label(), Label()
            self.jmp(head)
            self.place(head)
            e = self.expr(s.test)
            st = self.static_truth(e)
            if st is True:
                self.jmp(body)
            elif st is False:
                self.jmp(end)
            else:
                self.br(e, body, end)
            self.place(body)
            sub = self.child(loop=(head, end))
            sub.block(s.body)
            self.jmp(head)
            self.place(end)
            return
        if isinstance(s, ast.For):
            it = s.iter
            if not (isinstance(it, ast.Attribute) and self.is_listener(it.value) and it.attr == '_callbacks' and isinstance(s.target, ast.Name)) or s.orelse:
                raise Unsupported('for loop ' + c.where(s))
            end = Label()
            for i in range(c.ncallbacks):
                nxt = Label()
                self.set(self.local(s.target.id), const(i))
                sub = self.child(loop=(nxt, end))
                sub.block(s.body)
                self.jmp(nxt)
                self.place(nxt)
            self.jmp(end)
            self.place(end)
            return
        if isinstance(s, ast.Break):
            if not self.loop:
                raise Unsupported(c.where(s))
            return self.jmp(self.loop[1])
        if isinstance(s, ast.Continue):
            if not self.loop:
                raise Unsupported(c.where(s))
            return self.jmp(self.loop[0])
        if isinstance(s, ast.Return):
            if not self.ret:
                raise Unsupported(c.where(s))
            if s.value is not None:
                self.set(self.ret[1], self.expr(s.value))
            return self.jmp(self.ret[0])
        if isinstance(s, ast.Assert):
            e = self.expr(s.test)
            ok, bad = Label(), Label()
            self.br(e, ok, bad)
            self.place(bad)
            self.raise_kind(const(K_ASSERT))
            self.place(ok)
            return
        if isinstance(s, ast.Raise):
            if s.exc is None:
                if self.cur_exc is None:
                    raise Unsupported('bare raise outside handler ' + c.where(s))
                return self.raise_kind(('loc', self.cur_exc))
            x = s.exc
            if isinstance(x, ast.Name) and x.id in self.exc_locals:
                return self.raise_kind(const(self.exc_locals[x.id]))
            if isinstance(x, ast.Name) and x.id in self.env and self.env[x.id] == self.cur_exc:
                return self.raise_kind(('loc', self.cur_exc))
            cls_node = x.func if isinstance(x, ast.Call) else x
            obj = c.resolve_class(cls_node)
            if not (isinstance(obj, type) and issubclass(obj, BaseException)):
                raise Unsupported('raise ' + c.where(s))
            if isinstance(x, ast.Call):
                for a in x.args:
                    self.expr(a)
            return self.raise_kind(const(c.kind_of_class(obj)))
        if isinstance(s, ast.Try):
            if s.finalbody:
                raise Unsupported('try/finally ' + c.where(s))
            dispatch, end = Label(), Label()
            sub = self.child(on_exc=dispatch)
            sub.block(s.body)
            # else-clause and fall-through run under the OUTER handler
            self.block(s.orelse)
            self.jmp(end)
            self.place(dispatch)
            for h in s.handlers:
                classes = c.catches(h.type)
                hl, nxt = Label(), Label()
                self.br(('excin', classes), hl, nxt)
                self.place(hl)
                hv = self.temp('hexc')
                self.set(hv, ('loc', '$exc'))
                self.set('$exc', const(0))
                hsub = self.child(cur_exc=hv)
                if h.name:
                    self.env[h.name] = hv
                hsub.block(h.body)
                self.jmp(end)
                self.place(nxt)
            self.jmp(self.on_exc)
            self.place(end)
            return
        raise Unsupported('statement ' + c.where(s))

    def assign(self, t, e, s):
        c = self.comp
        if isinstance(t, ast.Name):
            return self.set(self.local(t.id), e)
        if isinstance(t, ast.Attribute):
            if self.is_listener(t.value):
                if t.attr not in c.shared:
                    raise Unsupported(c.where(s))
                self.vis('STOREATTR', [e], {'attr': t.attr, 'line': s.lineno})
                return
            self.expr(t.value)      # attribute of an immaterial object (server.listener = self)
            return
        raise Unsupported('assignment ' + c.where(s))


def privatize(threads):
    """Shared attributes that only ONE thread program touches become locals of that thread
    (their loads/stores are invisible to every other thread, hence no scheduling points)."""
    users = {}
    for th in threads:
        for ins in th['prog'].instrs:
            if ins[0] == 'vis' and ins[1] in ('LOADATTR', 'STOREATTR'):
                users.setdefault(ins[6]['attr'], set()).add(th['name'])
    private = dict((a, list(u)[0]) for a, u in users.items() if len(u) == 1)
    for th in threads:
        prog = th['prog']
        new = []
        for ins in prog.instrs:
            if ins[0] == 'vis' and ins[1] in ('LOADATTR', 'STOREATTR') and private.get(ins[6]['attr']) == th['name']:
                loc = '@' + ins[6]['attr']
                prog.locals.add(loc)
                prog.local_init[loc] = 0 if ins[6]['attr'] == '_queue_full' else NONE
                if ins[1] == 'LOADATTR':
                    new.append(('set', ins[3], ('loc', loc), ins[4]))
                else:
                    new.append(('set', loc, ins[2][0], ins[4]))
            else:
                new.append(ins)
        prog.instrs = new
    return private


def find_post_fragment(comp):
    """The statements of ListenerRequestHandler.do_POST that follow `listener = self.server.listener`
    inside `if methodname == 'ExportIndication':`."""
    cls = comp.classes['ListenerRequestHandler']
    fn = [n for n in cls.body if isinstance(n, ast.FunctionDef) and n.name == 'do_POST'][0]
    for n in ast.walk(fn):
        if isinstance(n, ast.If) and isinstance(n.test, ast.Compare) and isinstance(n.test.left, ast.Name) and n.test.left.id == 'methodname':
            for i, s in enumerate(n.body):
                if isinstance(s, ast.Assign) and isinstance(s.targets[0], ast.Name) and s.targets[0].id == 'listener':
                    return n.body[i:]
    raise Unsupported('cannot locate the ExportIndication branch of do_POST')


def compile_thread(comp, name, kind, script=None):
    """kind: 'main' (script = python source of a pseudo-method), 'callback', 'sender'."""
    prog = ThreadProgram(name)
    die = Label()
    if kind == 'main':
        fn = ast.parse(script).body[0]
        ctx = Ctx(prog, comp, {'self'}, set(), 'm.', die)
        end = Label()
        ctx.ret = (end, ctx.temp('ret'))
        ctx.block(fn.body)
        ctx.jmp(end)
        ctx.place(end)
        fin = prog.emit(('end',))
        ctx.place(die)
        ctx.vis('DIE', [('loc', '$exc')], {})
        ctx.jmp(fin)
    elif kind == 'callback':
        ctx = Ctx(prog, comp, {'self'}, set(), 'c.', die)
        end = Label()
        ctx.ret = (end, ctx.temp('ret'))
        ctx.block(comp.methods['_callback_run'].body)
        comp.used_methods.add('_callback_run')
        ctx.jmp(end)
        ctx.place(end)
        fin = prog.emit(('end',))
        ctx.place(die)
        ctx.vis('DIE', [('loc', '$exc')], {})
        ctx.jmp(fin)
    elif kind == 'sender':
        ctx = Ctx(prog, comp, {'listener'}, {'self'}, 's.', die)
        loop = Label()
        ctx.place(loop)
        ind = ctx.local('indication_inst')
        ctx.vis('BEGIN_REQUEST', [], {}, dst=ind)
        ctx.set(ctx.local('msgid'), ('loc', ind))
        ctx.set(ctx.local('methodname'), const(OPQ))
        end = Label()
        ctx.ret = (end, ctx.temp('ret'))
        ctx.block(find_post_fragment(comp))
        ctx.jmp(end)
        ctx.place(end)
        ctx.vis('END_REQUEST', [], {})
        ctx.jmp(loop)
        ctx.place(die)
        ctx.vis('DIE', [('loc', '$exc')], {})
        ctx.jmp(loop)
    else:
        raise ValueError(kind)
    return prog.finish()
