"""XML text-layer model `X` (DESIGN.md section 3).

expat and minidom.toxml() sit between pywbem's encoder and parser and are C code / plain
serialisation.  During the symbolic search they are replaced by `dom2tt`: a walk turning
the minidom tree built by the real `_cim_xml` / `tocimxml()` code into the
(name, attrs, children) tuple tree the real TupleParser consumes, applying the XML 1.0
contract of a conforming parser to the serialised form:

 * text:       "\\r\\n" -> "\\n", "\\r" -> "\\n"      (XML 1.0 section 2.11; minidom does not
                                                      emit character references)
 * attributes: additionally "\\t", "\\n", "\\r" -> " "  (section 3.3.3; minidom escapes only
                                                      & < > ")
 * characters outside the XML `Char` production make the document ill-formed:
   `dom2tt` raises IllFormed.
 * CDATA sections are concatenated to text (their "]]>" splitting ran for real).

In REPLAY mode (native, concrete values) `roundtrip` uses the real pipeline instead:
dom.toxml() -> pywbem._tupletree.xml_to_tupletree_sax.  `selfcheck()` compares the model
with the real pipeline on a fixed corpus at start-up (disagreement = harness error).
"""
from . import mode


class IllFormed(Exception):
    """The DOM would serialise to an ill-formed XML 1.0 document."""


def is_xml_char(c):
    o = ord(c)
    # written with & and | (no short-circuit) so that a symbolic character yields ONE
    # symbolic boolean instead of a fork per comparison
    return (((o >= 0x20) & (o <= 0xD7FF)) | ((o >= 0xE000) & (o <= 0xFFFD)) | ((o >= 0x10000) & (o <= 0x10FFFF))
            | (o == 0x9) | (o == 0xA) | (o == 0xD))


def all_xml_chars(s):
    ok = True
    for c in s:
        ok = ok & is_xml_char(c)
    if ok:
        return True
    return False


def has_cr(s):
    """'\\r' in s, branch-free for symbolic strings (CrossHair's `in` forks per character)."""
    r = False
    for c in s:
        r = r | (ord(c) == 13)
    return r


def has_ws(s):
    """TAB, LF or CR in s, branch-free."""
    r = False
    for c in s:
        o = ord(c)
        r = r | (o == 9) | (o == 10) | (o == 13)
    return r


def norm_text(d):
    if not all_xml_chars(d):
        raise IllFormed('text')
    if has_cr(d):
        d = d.replace('\r\n', '\n').replace('\r', '\n')
    return d


def norm_attr(d):
    if not all_xml_chars(d):
        raise IllFormed('attr')
    if has_ws(d):
        d = d.replace('\r\n', ' ').replace('\r', ' ').replace('\n', ' ').replace('\t', ' ')
    return d


def dom2tt(node):
    kids = []
    for ch in node.childNodes:
        if ch.nodeType == ch.ELEMENT_NODE:
            kids.append(dom2tt(ch))
        elif ch.nodeType == ch.CDATA_SECTION_NODE:
            d = ch.data
            if ']]>' in d:
                raise IllFormed('cdata end marker inside CDATA section')
            d = norm_text(d)
            if d == '':
                continue
            if kids and isinstance(kids[-1], str):
                kids[-1] = kids[-1] + d
            else:
                kids.append(d)
        else:
            d = norm_text(ch.data)
            if d == '':
                continue            # empty text nodes serialise to nothing
            if kids and isinstance(kids[-1], str):
                kids[-1] = kids[-1] + d
            else:
                kids.append(d)
    attrs = {}
    for k in node.attributes.keys():
        attrs[k] = norm_attr(node.attributes[k].value)
    return (node.tagName, attrs, kids)


def roundtrip(dom):
    """DOM element -> tuple tree: model X in search mode, real toxml()+expat in replay mode."""
    if mode.REPLAY:
        from pywbem._tupletree import xml_to_tupletree_sax
        from pywbem import XMLParseError
        try:
            return xml_to_tupletree_sax(dom.toxml(), 'replay')
        except XMLParseError as e:
            raise IllFormed(str(e)[:200])
    return dom2tt(dom)


def selfcheck():
    """Model vs real pipeline on a fixed corpus; returns list of disagreements."""
    from xml.dom.minidom import Element, Text, CDATASection
    from pywbem._tupletree import xml_to_tupletree_sax
    from pywbem import XMLParseError
    bad = []
    texts = ['', 'a', ' a ', 'a\rb', 'a\r\nb', '\r', '\n', '\t', 'a&b<c>d"e\'f', ']]>', 'xé\U00010000',
             '\x01', '￾', 'a\x0bb', '\ud800']
    for t in texts:
        for a in texts:
            e = Element('E'); e.ownerDocument = None
            e.setAttribute('A', a)
            tn = Text()
            tn.data = t
            e.appendChild(tn)
            k = Element('K'); k.ownerDocument = None
            e.appendChild(k)
            t2 = Text()
            t2.data = t
            e.appendChild(t2)
            try:
                m = ('ok', dom2tt(e))
            except IllFormed:
                m = ('ill', None)
            try:
                r = ('ok', xml_to_tupletree_sax(e.toxml(), 'selfcheck'))
            except (XMLParseError, UnicodeEncodeError):
                r = ('ill', None)
            if m != r:
                bad.append((t, a, m, r))
    return bad
