"""Entry helper for E2/E3 job scripts: `python -m verifpw.e2.<mod> <function> --timeout T`.

A job function has the signature f(deadline, part, nparts) and returns a dict with
status (CONFIRMED | REFUTED | UNKNOWN | ERROR), paths, queries, confirmed_paths, cexs
(list of {args, message}), extra (free form: functions interpreted, contracts, outcomes).
"""
import argparse
import json
import os
import sys
import time
import traceback


class Budget(Exception):
    pass


def main(funcs):
    import warnings
    warnings.simplefilter('ignore')
    ap = argparse.ArgumentParser()
    ap.add_argument('function')
    ap.add_argument('--timeout', type=float, default=60.0)
    a = ap.parse_args()
    part, nparts = [int(x) for x in os.environ.get('VERIF_PART', '0/1').split('/')]
    t0 = time.time()
    out = {'function': a.function, 'status': 'ERROR', 'messages': [], 'paths': 0, 'queries': 0,
           'confirmed_paths': 0, 'cexs': []}
    try:
        res = funcs[a.function](t0 + a.timeout, part, nparts)
        out.update(res)
        if out.get('cexs'):
            out['status'] = 'REFUTED'
            out['cex'] = out['cexs'][0]
    except BaseException as e:  # noqa
        out['status'] = 'ERROR'
        out['messages'].append({'state': 'driver_exception', 'message': repr(e)[:500],
                                'traceback': traceback.format_exc()[-3000:]})
    out['wall_s'] = round(time.time() - t0, 2)
    sys.stdout.write('\n@@RESULT@@' + json.dumps(out, default=repr) + '\n')
    sys.stdout.flush()
