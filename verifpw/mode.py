"""Run mode shared by harnesses: SEARCH (under CrossHair, stubs on) or REPLAY (native,
real components wherever they exist)."""
import os
REPLAY = os.environ.get('VERIF_REPLAY') == '1'


def part():
    """Partition (i, n) of this process from VERIF_PART=i/n (default 0/1)."""
    p = os.environ.get('VERIF_PART', '0/1')
    i, n = p.split('/')
    return int(i), int(n)


def tier():
    return os.environ.get('VERIF_TIER', 'quick')
