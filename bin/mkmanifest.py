#!/usr/bin/env python3
"""Regenerates MANIFEST.json from verifpw/props/*.py (CLAIM dicts) - run by hand after editing."""
import importlib, json, os, sys
VERIF = os.path.dirname(os.path.dirname(os.path.abspath(__file__)))
sys.path.insert(0, VERIF)
ALL = ['C%02d' % i for i in range(1, 21)]
NA_REASONS = json.load(open(os.path.join(VERIF, 'not_applicable.json')))
checks, na = [], []
SERVES = {'E1': set(), 'E2': set(), 'E3': set()}
for pid in ALL:
    try:
        spec = importlib.import_module('verifpw.props.' + pid.lower())
    except ImportError:
        spec = None
    if spec is None or not getattr(spec, 'CLAIMED', True):
        na.append({'property_id': pid, 'reason': NA_REASONS.get(pid, 'no sound solver-based harness built yet for this property')})
        continue
    c = spec.CLAIM
    for h in spec.HARNESSES:
        SERVES['E1' if h['engine'] == 'crosshair' else 'E3' if '.bmc.' in h['module'] else 'E2'].add(pid)
    checks.append({
        'property_id': pid,
        'quick_cmd': 'bin/check %s --tier quick' % pid,
        'thorough_cmd': 'bin/check %s --tier thorough' % pid,
        'evidence_file': 'evidence/%s.json' % pid,
        'replay_cmd_template': 'bin/check --replay {path}',
        'engine': c.get('engine', 'crosshair+z3'),
        'level_claimed': {'category': 'other', 'text': c['text'], 'design_ref': 'DESIGN.md section 4, ' + pid},
        'level_note': c['note'],
        'technique': c['technique'],
    })
man = {
    'version': 1,
    'setup_cmd': 'bin/ensure_env.sh',
    'hooks': {'guard': 'PYWBEM_VERIF', 'enable': 'no source hooks exist; checks import /repo as is (PYWBEM_VERIF=1 is exported for future use)',
              'baseline_off_cmd': 'cd /repo && /venv/bin/python -m pytest -ra -q -p no:cacheprovider --timeout=900 --continue-on-collection-errors',
              'source_commits': [], 'add_only': True},
    'engines': [
        {'name': 'E1-crosshair', 'path': 'verifpw/ch_driver.py', 'serves_properties': sorted(SERVES['E1']),
         'kind_free_text': 'CrossHair 0.0.110 symbolic execution (z3) of the real pywbem modules, one process per harness partition'},
        {'name': 'E2-astz3', 'path': 'verifpw/astz3', 'serves_properties': sorted(SERVES['E2']),
         'kind_free_text': 'own symbolic interpreter over the current AST of the kernel functions on z3 (strings as code-point lists, regex/int/float/datetime contracts), differential against reference functions, every model cross-validated natively'},
        {'name': 'E3-bmc', 'path': 'verifpw/bmc', 'serves_properties': sorted(SERVES['E3']),
         'kind_free_text': 'listener thread programs compiled from the current AST; z3 (QF_BV) round-robin sequentialisation over all schedules within R rounds; counterexample schedules replayed on real threads'},
    ],
    'checks': checks,
    'not_applicable': na,
    'notes': 'Exit 0 = no unlisted violation; 1 = replayed violation; 2 = harness error (never a violation). '
             'Verdict per harness (PROVED-IN-BOUNDS / NO-CEX-IN-BUDGET) is in the evidence file.',
}
json.dump(man, open(os.path.join(VERIF, 'MANIFEST.json'), 'w'), indent=1)
print('checks:', [c['property_id'] for c in checks]); print('n/a:', [n['property_id'] for n in na])
