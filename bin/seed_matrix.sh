#!/bin/bash
# bin/seed_matrix.sh [Cnn-X ...]   (dev tool, not part of any check)
# Applies every stored seeded change to /repo's working tree in turn, runs the quick check of its
# property, records which harnesses reported a replayed counterexample in seeded/<id>/caught.json,
# and restores the tree.  /repo must be clean when this starts.
set -u
cd /verif
if [ -n "$(git -C /repo status --porcelain)" ]; then echo "/repo not clean"; exit 2; fi
SEEDS=${@:-$(ls seeded)}
for s in $SEEDS; do
  P=${s%%-*}
  if ! git -C /repo apply /verif/seeded/$s/patch.diff; then echo "$s: PATCH DOES NOT APPLY"; continue; fi
  t0=$(date +%s)
  bin/check $P --tier quick > /tmp/seedrun_$s.log 2>&1; rc=$?
  git -C /repo checkout -- .
  t1=$(date +%s)
  python3 - "$s" "$rc" "$((t1-t0))" <<'PY'
import json, re, sys
s, rc, wall = sys.argv[1], int(sys.argv[2]), int(sys.argv[3])
log = open('/tmp/seedrun_%s.log' % s).read()
harn = sorted(set(re.findall(r'^\S+ (\S+)\s+COUNTEREXAMPLE', log, re.M)))
viol = re.findall(r'^VIOLATION property=(\S+) replay=(\S+)', log, re.M)
sym = re.findall(r'symptom=(.{0,160})', log)
out = {'seed': s, 'exit_code': rc, 'wall_s': wall, 'harnesses_with_counterexample': harn, 'violations': len(viol), 'first_symptoms': sym[:3],
       'harness_errors': len(re.findall(r'^HARNESS-ERROR', log, re.M))}
json.dump(out, open('/verif/seeded/%s/caught.json' % s, 'w'), indent=1)
print('%s exit=%d wall=%ds caught_by=%s' % (s, rc, wall, ','.join(harn) or '-'))
PY
done
