#!/bin/bash
# bin/confirm_seed.sh <Cnn> <A|B> [patch-override]   (dev tool, not part of any check)
# Confirms a seeded change in a scratch worktree of /repo's HEAD and stores it under seeded/.
set -u
P=$1; S=$2; SRC=/tmp/seed/$P/seed_out/$S; PATCH=${3:-$SRC/patch.diff}
W=/tmp/confirm_$P$S; OUT=/verif/seeded/$P-$S
rm -rf $W; git -C /repo worktree add -q --detach $W HEAD || exit 2
cd $W
if ! git apply $PATCH 2>/dev/null; then
  if ! git apply -3 $PATCH 2>/dev/null && ! patch -p1 -F3 -s < $PATCH; then echo "PATCH DOES NOT APPLY"; git -C /repo worktree remove --force $W; exit 3; fi
fi
git diff > /tmp/confirm_$P$S.diff
FILES=$(git diff --name-only | tr '\n' ' ')
TESTS=""
for f in $FILES; do
  b=$(basename $f .py); b=${b#_}
  case $f in
    pywbem_mock/*) TESTS="$TESTS tests/unittest/pywbem_mock";;
    pywbem/*) for t in tests/unittest/pywbem/test_${b}*.py; do [ -e $t ] && TESTS="$TESTS $t"; done;;
  esac
done
case "$FILES" in *_cim_obj*|*_cim_types*|*_tupleparse*|*_cim_xml*|*_cim_operations*|*_cim_http*) TESTS="$TESTS tests/functiontest tests/unittest/pywbem/test_cim_operations.py";; esac
TESTS=$(echo $TESTS | tr ' ' '\n' | sort -u | grep -v test_utils.py | tr '\n' ' ')
export PYTHONPATH=$W
echo "== demo with patch (expect failure)"; /venv/bin/python -m pytest -q -p no:cacheprovider -x $SRC/demo_test.py 2>&1 | tail -1; D1=${PIPESTATUS[0]}
echo "== tests with patch: $TESTS"; /venv/bin/python -m pytest -q -p no:cacheprovider -n 6 $TESTS 2>&1 | tail -1 | tee /tmp/confirm_$P$S.tests
git checkout -q -- .
echo "== demo without patch (expect pass)"; /venv/bin/python -m pytest -q -p no:cacheprovider $SRC/demo_test.py 2>&1 | tail -1; D2=${PIPESTATUS[0]}
cd /; git -C /repo worktree remove --force $W
if [ $D1 -ne 0 ] && [ $D2 -eq 0 ]; then
  mkdir -p $OUT; cp /tmp/confirm_$P$S.diff $OUT/patch.diff; cp $SRC/demo_test.py $OUT/demo_test.py
  /venv/bin/python - <<PY
import json
m = json.load(open('$SRC/meta.json'))
m['confirmed'] = {'patch_rebased_on': '$(git -C /repo rev-parse --short HEAD)', 'demo_fails_with_patch': True, 'demo_passes_without_patch': True,
                  'tests_run': '''/venv/bin/python -m pytest -q -n 6 $TESTS''', 'tests_result': open('/tmp/confirm_$P$S.tests').read().strip()}
json.dump(m, open('$OUT/meta.json', 'w'), indent=1)
PY
  echo "STORED $OUT"
else
  echo "NOT CONFIRMED demo_with=$D1 demo_without=$D2"
fi
