#!/bin/bash
# Builds /verif/.venv (overlay on /venv) with crosshair-tool, z3-solver, cvc5 from the
# offline wheelhouse.  Idempotent; serialised by a lock so parallel checks can call it.
set -e
V=/verif/.venv
mkdir -p /verif/.lock.d 2>/dev/null || true
exec 9>/verif/.envlock
flock 9
if [ -x "$V/bin/python" ] && "$V/bin/python" -c 'import crosshair, z3, pywbem' 2>/dev/null; then
  exit 0
fi
rm -rf "$V"
/venv/bin/python -m venv "$V"
SP=$("$V/bin/python" -c 'import sysconfig; print(sysconfig.get_paths()["purelib"])')
cat > "$SP/verif_overlay.pth" <<EOP
import site; site.addsitedir('/venv/lib/python3.12/site-packages')
EOP
PIP_NO_INDEX=1 "$V/bin/python" -m pip install -q --no-index --find-links /opt/veriftools/wheels crosshair-tool z3-solver cvc5 >/dev/null 2>&1 || \
PIP_NO_INDEX=1 "$V/bin/python" -m pip install -q --no-index --find-links /opt/veriftools/wheels crosshair-tool z3-solver
"$V/bin/python" -c 'import crosshair, z3; import sys; sys.path.insert(0, "/repo"); import pywbem'
