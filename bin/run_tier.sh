#!/bin/bash
# bin/run_tier.sh <quick|thorough> [Cnn ...]  (dev tool): runs the registered checks one after the other, logs exit code and wall time.
T=$1; shift
PROPS=${@:-C01 C02 C03 C04 C05 C06 C07 C08 C09 C10 C11 C12 C13 C14 C15 C16 C17 C18 C19 C20}
mkdir -p /verif/logs
for p in $PROPS; do
  t0=$(date +%s)
  /verif/bin/check $p --tier $T > /verif/logs/$p.$T.log 2>&1; rc=$?
  t1=$(date +%s)
  echo "$p tier=$T exit=$rc wall=$((t1-t0))s $(grep -c '^KNOWN-FINDING' /verif/logs/$p.$T.log) known-finding lines, $(grep -c '^VIOLATION' /verif/logs/$p.$T.log) violations, $(grep -c '^HARNESS-ERROR' /verif/logs/$p.$T.log) harness errors" | tee -a /verif/logs/summary.$T.txt
done
