#!/usr/bin/env python3
"""One-off source transformation for harness files: every contracted harness function F
is split into `_F` (body, no contract) and `F` (contract + call), and `*_reach` twins call
`_F`, so CrossHair never short-circuits a callee that carries a contract."""
import ast, re, sys
path = sys.argv[1]
src = open(path).read()
tree = ast.parse(src)
lines = src.split('\n')
funcs = [n for n in tree.body if isinstance(n, ast.FunctionDef) and ast.get_docstring(n) and 'post:' in ast.get_docstring(n)]
names = {f.name for f in funcs if not f.name.endswith('_reach')}
out = []
edits = []
for f in funcs:
    if f.name.endswith('_reach') or f.name.startswith('_'):
        continue
    start = f.lineno - 1
    docnode = f.body[0]
    body_start = docnode.end_lineno        # 0-based index of first line after docstring
    end = f.end_lineno
    header = lines[start:docnode.lineno - 1]
    doc = lines[docnode.lineno - 1:docnode.end_lineno]
    body = lines[body_start:end]
    args = [a.arg for a in f.args.args]
    impl_header = [re.sub(r'def %s\(' % f.name, 'def _%s(' % f.name, h) for h in header]
    impl_header = [re.sub(r'\)\s*->.*:$', '):', h) for h in impl_header]
    # strip annotations in impl header is not needed; keep
    new = impl_header + body + ['', ''] + header + doc + ['    return _%s(%s)' % (f.name, ', '.join(args))]
    edits.append((start, end, new))
for start, end, new in sorted(edits, reverse=True):
    lines[start:end] = new
src = '\n'.join(lines)
for n in names:
    src = re.sub(r'(\n    r = )%s\(' % n, r'\1_%s(' % n, src)
open(path, 'w').write(src)
