"""C10 harness (E1): the mock server's instance store is a faithful keyed map.

step(): ONE operation (Create/Modify/Delete/Get/EnumerateInstances/EnumerateInstanceNames)
with symbolic arguments from an ARBITRARY reachable pre-state (symbolic subset of a pool of
instances, created through the store API; restored per path by un-pickling), then an
observation of the whole store, compared with a reference dict keyed by
(namespace.lower(), class.lower(), key).  Because every pre-state reachable by Create
histories is covered, the step covers histories of any length (inductive step).
Isolation: after the operation the passed-in object and the returned object are mutated
in place, then the observation is repeated and must not change.
"""
import warnings
warnings.simplefilter('ignore')
import pickle
from typing import Optional
from verifpw import kf, mode
import pywbem
import pywbem_mock
from pywbem import (CIMError, CIMInstance, CIMInstanceName, CIMProperty, Uint32, CIM_ERR_ALREADY_EXISTS, CIM_ERR_NOT_FOUND,
                    CIM_ERR_INVALID_CLASS, CIM_ERR_INVALID_NAMESPACE, CIM_ERR_INVALID_PARAMETER)
import pywbem_mock._mainprovider as mp
import pywbem_mock._providerdispatcher as pd
import pywbem_mock._instancewriteprovider as iw
import pywbem_mock._baseprovider as bp
import pywbem_mock._wbemconnection_mock as wm

if not mode.REPLAY:
    for _m in (mp, pd, iw, bp, wm):
        _m._format = lambda *a, **k: 'msg'
PART, NPARTS = mode.part()
TAGS = []
MOF = '''
Qualifier Key : boolean = false, Scope(property, reference), Flavor(DisableOverride, ToSubclass);
class C_A { [Key] string K; uint32 V; string S; string Tags[]; };
class C_B : C_A { uint32 W; };
class C_X { [Key] string K; };
'''
CONN = pywbem_mock.FakedWBEMConnection(default_namespace='root/a')
CONN.add_namespace('root/b')
CONN.compile_mof_string(MOF, namespace='root/a')
CONN.compile_mof_string(MOF, namespace='root/b')
POOL = [('root/a', 'C_A', 'k1'), ('root/a', 'C_A', 'k2'), ('root/a', 'C_B', 'k1'), ('root/b', 'C_A', 'k1'), ('root/a', 'C_X', 'k1')]
REPO0 = pickle.dumps(CONN.cimrepository)
OPS = ['CreateInstance', 'ModifyInstance', 'DeleteInstance', 'GetInstance', 'EnumerateInstances', 'EnumerateInstanceNames']
# argument variants for the target: 0..4 = pool entry, 5 = unknown key, 6 = unknown class, 7 = unknown namespace
NTARGETS = 8


def restore():
    CONN.cimrepository.load(pickle.loads(REPO0))


def mkinst(ns, cls, k, v=1, s='s0', kname='K', with_path=True):
    props = [CIMProperty(kname, k), CIMProperty('V', Uint32(v)), CIMProperty('S', s), CIMProperty('Tags', ['t1'], type='string')]
    if cls.lower() == 'c_x':
        props = [CIMProperty(kname, k)]
    path = CIMInstanceName(cls, {kname: k}, namespace=ns) if with_path else None
    return CIMInstance(cls, properties=props, path=path)


def target(sel):
    if sel < 5:
        return POOL[sel]
    if sel == 5:
        return ('root/a', 'C_A', 'nokey')
    if sel == 6:
        return ('root/a', 'C_None', 'k1')
    return ('root/none', 'C_A', 'k1')


def observe():
    """Whole-store observation through the public API."""
    out = []
    for ns in ('root/a', 'root/b'):
        for cls in ('C_A', 'C_X'):
            for inst in CONN.EnumerateInstances(cls, namespace=ns, DeepInheritance=True):
                vals = tuple((n, inst[n]) for n in ('V', 'S') if n in inst)
                tags = tuple(inst['Tags']) if 'Tags' in inst and inst['Tags'] is not None else None
                out.append((ns, inst.path.classname.lower(), inst['K'], vals, tags, inst.path.namespace, inst.classname.lower()))
    return sorted(out)


def expected_obs(model):
    out = []
    for (ns, cls, k), d in model.items():
        vals = tuple((n, d[n]) for n in ('V', 'S') if n in d)
        out.append((ns, cls, k, vals, d.get('Tags'), ns, cls))
    return sorted(out)


def _step(mask: int, op: int, sel: int, cvar: int, v: int, plsel: int, mut: int):
    if kf.skip('c10_store:step', mask=mask, op=OPS[op], sel=sel, cvar=cvar, v=v, plsel=plsel, mut=mut):
        return None
    restore()
    model = {}
    for i, (ns, cls, k) in enumerate(POOL):
        if (mask >> i) & 1:
            inst = mkinst(ns, cls, k)
            CONN.cimrepository.get_instance_store(ns).create(inst.path, inst)
            model[(ns, cls.lower(), k)] = {'V': 1, 'S': 's0', 'Tags': ('t1',)} if cls != 'C_X' else {}
    ns, cls, k = target(sel)
    cname = cls.upper() if cvar & 1 else cls          # lexical case of the class name
    kname = 'k' if cvar & 2 else 'K'                  # ... of the key name
    nsname = ns.upper() if cvar & 4 else ns           # ... of the namespace
    key = (ns, cls.lower(), k)
    ns_ok = ns in ('root/a', 'root/b')
    cls_ok = cls in ('C_A', 'C_B', 'C_X')
    passed = None
    returned = None
    opname = OPS[op]
    try:
        if opname == 'CreateInstance':
            passed = mkinst(ns, cname, k, v, 'new', kname, with_path=(cvar & 8) != 0)
            returned = CONN.CreateInstance(passed, namespace=nsname)
            if not ns_ok or not cls_ok:
                return 'CreateInstance accepted in a missing namespace/class'
            if key in model:
                return 'CreateInstance accepted a duplicate'
            model[key] = {'V': v, 'S': 'new', 'Tags': ('t1',)} if cls != 'C_X' else {}
            if not (returned.classname.lower() == cls.lower() and returned['K'] == k and returned.namespace.lower() == ns):
                return 'CreateInstance returned a wrong path'
        elif opname == 'ModifyInstance':
            passed = mkinst(nsname, cname, k, v, 'mod', kname)
            pl = [None, ['V'], ['v'], ['S'], [], ['V', 'S'], ['Nope']][plsel]
            CONN.ModifyInstance(passed, PropertyList=pl)
            if key not in model:
                return 'ModifyInstance accepted for a missing instance'
            if pl is not None and ('Nope' in pl or (cls == 'C_X' and pl)):
                return 'ModifyInstance accepted an undeclared property in PropertyList'
            if cls != 'C_X':
                names = None if pl is None else [p.lower() for p in pl]
                if names is None or 'v' in names:
                    model[key]['V'] = v
                if names is None or 's' in names:
                    model[key]['S'] = 'mod'
        elif opname == 'DeleteInstance':
            passed = CIMInstanceName(cname, {kname: k}, namespace=nsname)
            CONN.DeleteInstance(passed)
            if key not in model:
                return 'DeleteInstance accepted for a missing instance'
            del model[key]
        elif opname == 'GetInstance':
            passed = CIMInstanceName(cname, {kname: k}, namespace=nsname)
            pl = [None, ['V'], ['v'], ['S'], [], ['V', 'S'], ['Nope']][plsel]
            returned = CONN.GetInstance(passed, PropertyList=pl)
            if key not in model:
                return 'GetInstance returned a missing instance'
            if cls != 'C_X':
                names = None if pl is None else [p.lower() for p in pl]
                for pn in ('V', 'S'):
                    want_present = names is None or pn.lower() in names
                    if (pn in returned) != want_present:
                        return 'GetInstance PropertyList filtering wrong for %s' % pn
                    if want_present and returned[pn] != model[key][pn]:
                        return 'GetInstance returned a wrong value'
            if returned.path is None or returned.path['K'] != k:
                return 'GetInstance returned a wrong path'
        elif opname == 'EnumerateInstances':
            returned = CONN.EnumerateInstances(cname, namespace=nsname, DeepInheritance=(cvar & 8) != 0)
            if not ns_ok or not cls_ok:
                return 'EnumerateInstances accepted a missing namespace/class'
            want = sorted(kk[2] + '/' + kk[1] for kk in model if kk[0] == ns and (kk[1] == cls.lower() or (cls == 'C_A' and kk[1] == 'c_b')))
            got = sorted(i['K'] + '/' + i.path.classname.lower() for i in returned)
            if got != want:
                return 'EnumerateInstances returned the wrong set'
        else:
            returned = CONN.EnumerateInstanceNames(cname, namespace=nsname)
            if not ns_ok or not cls_ok:
                return 'EnumerateInstanceNames accepted a missing namespace/class'
            want = sorted(kk[2] + '/' + kk[1] for kk in model if kk[0] == ns and (kk[1] == cls.lower() or (cls == 'C_A' and kk[1] == 'c_b')))
            got = sorted(p['K'] + '/' + p.classname.lower() for p in returned)
            if got != want:
                return 'EnumerateInstanceNames returned the wrong set'
        TAGS.append('ok')
    except CIMError as e:
        TAGS.append('err')
        code = e.status_code
        if not ns_ok:
            want = CIM_ERR_INVALID_NAMESPACE
        elif not cls_ok:
            want = CIM_ERR_INVALID_CLASS if opname in ('CreateInstance', 'EnumerateInstances', 'EnumerateInstanceNames', 'ModifyInstance') else None
            if want is None and code not in (CIM_ERR_INVALID_CLASS, CIM_ERR_NOT_FOUND):
                return '%s: status %d for an unknown class' % (opname, code)
            want = want or code
        elif opname == 'CreateInstance':
            want = CIM_ERR_ALREADY_EXISTS if key in model else None
            if want is None:
                return 'CreateInstance refused a valid new instance with status %d' % code
        elif opname in ('DeleteInstance', 'GetInstance'):
            if key not in model:
                want = CIM_ERR_NOT_FOUND
            elif opname == 'GetInstance' and plsel == 6:
                want = code          # undeclared property in PropertyList: tolerated or refused, not specified by the property
            else:
                return '%s refused for an existing instance with status %d' % (opname, code)
        elif opname == 'ModifyInstance':
            if key not in model:
                want = CIM_ERR_NOT_FOUND
            elif plsel == 6 or (cls == 'C_X' and plsel in (1, 2, 3, 5)):
                want = CIM_ERR_INVALID_PARAMETER        # PropertyList names a property the class does not declare (C_X has only the key)
            else:
                return 'ModifyInstance refused for an existing instance with status %d' % code
        else:
            return '%s refused with status %d' % (opname, code)
        if code != want:
            return '%s: status %d instead of %d' % (opname, code, want)
    # observation 1
    obs = observe()
    if obs != expected_obs(model):
        return '%s: store content differs from the reference map' % opname
    # isolation: mutate what was passed in and what was handed out
    if mut & 1 and isinstance(passed, CIMInstance):
        for p in passed.properties.values():
            if isinstance(p.value, list):
                p.value.append('x')
            elif p.name.lower() != 'k':
                p.value = Uint32(77) if p.type == 'uint32' else 'mutated'
        if passed.path is not None:
            passed.path.keybindings[list(passed.path.keybindings.keys())[0]] = 'mutated'
    if mut & 1 and isinstance(passed, CIMInstanceName):
        passed.keybindings[list(passed.keybindings.keys())[0]] = 'mutated'
        passed.classname = 'Mutated'
    if mut & 2 and returned is not None:
        items = returned if isinstance(returned, list) else [returned]
        for r in items:
            if isinstance(r, CIMInstance):
                for p in r.properties.values():
                    if isinstance(p.value, list):
                        p.value.append('x')
                    else:
                        p.value = 'mutated' if p.type == 'string' else Uint32(78)
                if r.path is not None:
                    r.path.keybindings['K'] = 'mutated'
            elif isinstance(r, CIMInstanceName):
                r.keybindings['K'] = 'mutated'
                r.classname = 'Mutated'
    if mut:
        try:
            obs2 = observe()
        except CIMError:
            return '%s: the store is corrupted after a client-side mutation of a passed-in/returned object' % opname
        if obs2 != obs:
            return '%s: changing a passed-in or returned object afterwards changed what the server returns' % opname
        # keyed access still works for every stored instance
        for (ns2, cls2, k2) in model:
            try:
                CONN.GetInstance(CIMInstanceName(cls2, {'K': k2}, namespace=ns2))
            except CIMError:
                return '%s: a stored instance became unreachable after a client-side mutation' % opname
    return None


VPOOL = [7, 0, 4294967295]


def _run(mask, op, sel, cvar, vsel, plsel):
    """The selectors are realised (the solver enumerates the finite selector space) and the
    mock stack then runs untraced at native speed: under the tracer one step costs seconds
    (deepcopy-heavy code), natively 6 ms."""
    if mode.REPLAY:
        return _step(mask, op, sel, cvar, VPOOL[vsel], plsel, 3)
    from crosshair.core import realize
    from crosshair.tracers import NoTracing
    from selpick import pick_all
    a = pick_all((mask, op, sel, cvar, vsel, plsel))
    with NoTracing():
        return _step(a[0], a[1], a[2], a[3], VPOOL[a[4]], a[5], 3)


def step(mask: int, op: int, sel: int, cvar: int, vsel: int, plsel: int) -> Optional[str]:
    """
    pre: 0 <= mask < 32 and 0 <= op < 6 and 0 <= sel < NTARGETS and 0 <= cvar < 16 and 0 <= vsel <= 2 and 0 <= plsel <= 6
    pre: op == 1 or op == 3 or plsel == 0
    pre: op == 0 or op == 1 or vsel == 0
    pre: (op * 2 + (sel % 2)) % NPARTS == PART
    post: _ is None
    """
    return _run(mask, op, sel, cvar, vsel, plsel)


def step_reach(mask: int, op: int, sel: int, cvar: int, vsel: int, plsel: int) -> bool:
    """
    pre: 0 <= mask < 32 and 0 <= op < 6 and 0 <= sel < NTARGETS and 0 <= cvar < 16 and 0 <= vsel <= 2 and 0 <= plsel <= 6
    pre: op == 1 or op == 3 or plsel == 0
    pre: op == 0 or op == 1 or vsel == 0
    pre: (op * 2 + (sel % 2)) % NPARTS == PART
    post: _
    """
    del TAGS[:]
    r = _run(mask, op, sel, cvar, vsel, plsel)
    return not (r is None and 'ok' in TAGS)
