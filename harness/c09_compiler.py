"""C09 harness (E1): compile_string()/compile_file() succeed or raise MOFCompileError whose
position lies inside the offending input; after a failure the same MOFCompiler compiles
valid MOF correctly; repository errors of every status code surface as MOFCompileError.

total(): selector-chosen MOF text (pool of valid fragments x token-level mutations, pragmas,
include structure with nested files, embedded-instance values, aliases, huge numbers, bad
escapes) compiled with a repository handle that fails with a symbolic CIM status code at a
symbolic call index; then a valid MOF is compiled with the SAME compiler.
"""
import warnings
warnings.simplefilter('ignore')
import os
import shutil
import tempfile
from typing import Optional
from verifpw import kf, mode
import pywbem
from pywbem import MOFCompiler, MOFCompileError, CIMError, Error
from pywbem._mof_compiler import MOFWBEMConnection

PART, NPARTS = mode.part()
TAGS = []
QUALS = '''Qualifier Key : boolean = false, Scope(property, reference), Flavor(DisableOverride, ToSubclass);
Qualifier Description : string = null, Scope(any), Flavor(EnableOverride, ToSubclass, Translatable);
Qualifier EmbeddedInstance : string = null, Scope(property, method, parameter);
Qualifier Association : boolean = false, Scope(association), Flavor(DisableOverride, ToSubclass);
'''
VALID = QUALS + '''class C_A { [Key] string K; uint32 V; [EmbeddedInstance("C_A")] string E; };
class C_B : C_A { sint8 W = -5; real32 R = 1.5; datetime D; string S[] = {"a", "b"}; };
instance of C_A as $a1 { K = "k1"; V = 0x1F; };
[Association] class C_R { [Key] C_A REF L; [Key] C_A REF R; };
instance of C_R { L = $a1; R = $a1; };
'''
SECOND = 'class Z_After { [Key, Description("after the failure")] string K; uint8 N = 7; };\ninstance of Z_After { K = "z"; N = 1; };\n'
# pieces appended to QUALS (or used alone); each should FAIL with a MOFCompileError
BAD = [
    'class C_A { string K',                                            # 0 unexpected end of input
    'class C_A { [Key] string K; }; class C_A { string X; };',         # 1 duplicate class
    'class C_B : NoSuper { string X; };',                              # 2 missing superclass
    'class C_A { [NoQual] string K; };',                               # 3 undeclared qualifier
    'class C_A { uint8 V = 256; };',                                   # 4 value out of range
    'class C_A { uint8 V = "str"; };',                                 # 5 type/value mismatch
    'class C_A { string S = "unterminated; };',                        # 6 unterminated string
    'class C_A { string S; }; /* unterminated comment',                # 7 unterminated comment
    'class C_A { string S = "bad \\q escape"; };',                     # 8 bad escape
    'class C_A { uint64 V = 99999999999999999999999999999; };',        # 9 huge number
    'class C_A { [Key] string K; };\ninstance of C_A { K = $undefined; };',   # 10 undefined alias
    'class C_A { [Key] string K; };\ninstance of C_A { Nope = 1; };',  # 11 undeclared property
    'instance of NoClass { K = "x"; };',                               # 12 unknown class
    '#pragma namespace("1:")\nclass C_A { string K; };',               # 13 malformed namespace pragma
    '#pragma include("does_not_exist.mof")',                           # 14 missing include file -> OSError allowed
    '#pragma include("self.mof")',                                     # 15 self-including file
    '#pragma include("nested_ok.mof")\nclass C_Later { string X = ; };',  # 16 error AFTER a nested include (position must be in the outer text)
    '#pragma include("nested_bad.mof")',                               # 17 error INSIDE the nested file
    'class C_A { [Key] string K; [EmbeddedInstance("C_A")] string E; };\ninstance of C_A { K = "k"; E = "instance of C_A { K = ; };"; };',  # 18 bad embedded MOF
    'class C_A { datetime D = "not a datetime"; };',                   # 19 bad datetime
    'class 1Bad { string X; };',                                       # 20 bad identifier
    'class C_A { string X = "a" "b" 5; };',                            # 21 token soup
    'Qualifier Key : boolean = false, Scope(property);',               # 22 duplicate qualifier declaration (when appended to QUALS)
    'class C_A { [Key] string K; };\ninstance of C_A { K = "k"; };\ninstance of C_A { K = "k"; };',  # 23 duplicate instance
    'class C_A { char16 C = \'ab\'; };',                               # 24 bad char16
    '\x00\x01 class',                                                  # 25 control characters
]
NESTED = {'nested_ok.mof': 'class N_Ok { [Key] string K; };\n' * 3 + '// a long nested file, longer than the outer text remainder\n' * 5,
          'nested_bad.mof': 'class N_Bad { string X = ; };\n', 'self.mof': '#pragma include("self.mof")\n'}


class FaultyHandle(MOFWBEMConnection):
    """Repository handle that rejects the k-th repository call with CIMError(code)."""
    def __init__(self, fail_at, code):
        super().__init__()
        self.fail_at, self.code, self.calls = fail_at, code, 0

    def _tick(self):
        i = self.calls
        self.calls += 1
        if i == self.fail_at:
            raise CIMError(self.code, 'scripted repository error')

    def CreateClass(self, *a, **k):
        self._tick()
        return super().CreateClass(*a, **k)

    def ModifyClass(self, *a, **k):
        self._tick()
        return super().ModifyClass(*a, **k)

    def CreateInstance(self, *a, **k):
        self._tick()
        return super().CreateInstance(*a, **k)

    def ModifyInstance(self, *a, **k):
        self._tick()
        return super().ModifyInstance(*a, **k)

    def SetQualifier(self, *a, **k):
        self._tick()
        return super().SetQualifier(*a, **k)

    def GetClass(self, *a, **k):
        self._tick()
        return super().GetClass(*a, **k)


def check_position(e, text, files):
    """line/column/file identify a position inside the offending input."""
    if e.lineno is None and e.column is None:
        return None
    src = text
    if e.file:
        base = os.path.basename(e.file)
        if base not in files:
            return 'error names file %r which is not part of the input' % e.file
        src = files[base]
    lines = src.split('\n')
    if not (1 <= e.lineno <= len(lines)):
        return 'error line %r outside the %d lines of %s' % (e.lineno, len(lines), e.file or 'the input string')
    if e.column is not None and not (0 <= e.column <= len(lines[e.lineno - 1]) + 1):
        return 'error column %r outside line %d (length %d) of %s' % (e.column, e.lineno, len(lines[e.lineno - 1]), e.file or 'the input string')
    return None


def _total(bad: int, prefix: bool, via_file: bool, fail_at: int, code: int, second: bool):
    if kf.skip('c09_compiler:total', bad=bad, prefix=prefix, via_file=via_file, fail_at=fail_at, code=code, second=second):
        return None
    tmp = tempfile.mkdtemp(prefix='verif_c09_')
    try:
        for fn, content in NESTED.items():
            with open(os.path.join(tmp, fn), 'w') as f:
                f.write(content)
        text = (QUALS if prefix else '') + (BAD[bad] if bad < len(BAD) else VALID[len(QUALS):] if prefix else VALID)
        handle = FaultyHandle(fail_at, code) if fail_at >= 0 else MOFWBEMConnection()
        comp = MOFCompiler(handle, search_paths=[tmp], log_func=None)
        files = dict(NESTED)
        cwd = os.getcwd()
        os.chdir(tmp)
        try:
            try:
                if via_file:
                    files['main.mof'] = text
                    with open(os.path.join(tmp, 'main.mof'), 'w') as f:
                        f.write(text)
                    comp.compile_file(os.path.join(tmp, 'main.mof'), 'root/x')
                else:
                    comp.compile_string(text, 'root/x')
                outcome = 'ok'
            except MOFCompileError as e:
                outcome = 'mof-error'
                if not isinstance(e, Error):
                    return 'MOFCompileError is not a pywbem.Error'
                r = check_position(e, text, files)
                if r:
                    return 'input %d: %s' % (bad, r)
            except OSError:
                if bad != 14:
                    return 'input %d: OSError although no file is missing' % bad
                outcome = 'oserror'
            except RecursionError:
                return 'input %d: RecursionError (self-including file) escaped' % bad
            except Exception as e:      # noqa
                return 'input %d (%s, fault %d/%d): %s escaped from the compiler' % (bad, 'file' if via_file else 'string', fail_at, code, type(e).__name__)
            if bad >= len(BAD) and fail_at < 0 and outcome != 'ok':
                return 'valid MOF rejected'
            TAGS.append(outcome)
            if second:
                # the SAME compiler object must compile valid MOF correctly afterwards
                fresh = MOFWBEMConnection()
                MOFCompiler(fresh, log_func=None).compile_string(QUALS + SECOND, 'root/y')
                if fail_at >= 0:
                    handle.fail_at = -1             # the repository works again
                try:
                    comp.compile_string(QUALS + SECOND, 'root/y')
                except Exception as e:      # noqa
                    return 'after a failed compile (input %d) the same compiler rejects valid MOF with %s' % (bad, type(e).__name__)
                got_c = comp.handle.classes.get('root/y', {})
                want_c = fresh.classes.get('root/y', {})
                if sorted(got_c.keys()) != sorted(want_c.keys()) or any(got_c[k] != want_c[k] for k in want_c):
                    return 'after a failed compile (input %d) the same compiler produces different classes' % bad
                got_i = comp.handle.instances.get('root/y', [])
                want_i = fresh.instances.get('root/y', [])
                if len(got_i) != len(want_i) or any(a != b for a, b in zip(got_i, want_i)):
                    return 'after a failed compile (input %d) the same compiler produces different instances' % bad
                TAGS.append('second-ok')
        finally:
            os.chdir(cwd)
    finally:
        shutil.rmtree(tmp, ignore_errors=True)
    return None


def _run(*a):
    if mode.REPLAY:
        return _total(*a)
    from crosshair.core import realize
    from crosshair.tracers import NoTracing
    from selpick import pick_all
    b = pick_all(a)
    with NoTracing():
        return _total(*b)


def total(bad: int, prefix: bool, via_file: bool, fail_at: int, code: int, second: bool) -> Optional[str]:
    """
    pre: 0 <= bad <= len(BAD) and -1 <= fail_at <= 6 and 1 <= code <= 28
    pre: fail_at >= 0 or code == 1
    pre: bad % NPARTS == PART
    post: _ is None
    """
    return _run(bad, prefix, via_file, fail_at, code, second)


def total_reach(bad: int, prefix: bool, via_file: bool, fail_at: int, code: int, second: bool) -> bool:
    """
    pre: 0 <= bad <= len(BAD) and -1 <= fail_at <= 6 and 1 <= code <= 28
    pre: fail_at >= 0 or code == 1
    pre: bad % NPARTS == PART
    post: _
    """
    del TAGS[:]
    r = _run(bad, prefix, via_file, fail_at, code, second)
    return not (r is None and 'second-ok' in TAGS)


# ------------------------------------------------------------------ repository faults on VALID MOF (exhausted in the quick tier)
def faults(fail_at: int, code: int, prefix: bool, via_file: bool, second: bool) -> Optional[str]:
    """
    pre: 0 <= fail_at <= 6 and 1 <= code <= 28
    pre: (fail_at * 2 + code % 2) % NPARTS == PART
    post: _ is None
    """
    return _run(len(BAD), prefix, via_file, fail_at, code, second)


def faults_reach(fail_at: int, code: int, prefix: bool, via_file: bool, second: bool) -> bool:
    """
    pre: 0 <= fail_at <= 6 and 1 <= code <= 28
    pre: (fail_at * 2 + code % 2) % NPARTS == PART
    post: _
    """
    del TAGS[:]
    r = _run(len(BAD), prefix, via_file, fail_at, code, second)
    return not (r is None and 'mof-error' in TAGS)


def replay_faults(fail_at, code, prefix, via_file, second):
    r = _total(len(BAD), prefix, via_file, fail_at, code, second)
    return (r is not None), repr(r)
