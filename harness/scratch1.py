import c01_roundtrip as c
from typing import Optional
def f1(cn: str) -> Optional[str]:
    """
    pre: len(cn) == 2
    post: _ is None
    """
    return c.rt(c.CIMClassName(cn))
def f2(cn: str) -> Optional[str]:
    """
    pre: 1 <= len(cn) <= 3
    post: _ is None
    """
    return c.rt(c.CIMClassName(cn))
def f3(cn: str, ns: str) -> Optional[str]:
    """
    pre: len(cn) == 2 and len(ns) == 2
    post: _ is None
    """
    if ns.startswith('/') or ns.endswith('/') or '//' in ns: return None
    return c.rt(c.CIMClassName(cn, namespace=ns))
