"""C14 harnesses (E1): pull enumeration server step and client validators.

H1 step: ONE Pull/Close/Open step of the real MainProvider code from an ARBITRARY
context table state (inductive step: covers sessions of any length, provided the
representation invariant "a registered context holds >= 1 object" - established by
_open_response, re-established by _pull_response, both checked here).
"""
import warnings
warnings.simplefilter('ignore')
from typing import Optional
from verifpw import kf, mode
import pywbem
from pywbem import CIMError, CIM_ERR_INVALID_ENUMERATION_CONTEXT, CIM_ERR_INVALID_NAMESPACE
import pywbem_mock._mainprovider as mp
from pywbem_mock._mainprovider import MainProvider

mp._format = lambda *a, **k: 'msg'     # stub: message formatting (not the subject)
TAGS = []
PART, NPARTS = mode.part()
N_MAX = 5 if mode.tier() == 'quick' else 8


def in_part(x):
    return x % NPARTS == PART


def mklist(n, base=0):
    """Real Python list [base .. base+n) (forks on n; avoids CrossHair's lazily shared symbolic lists)."""
    out = []
    i = 0
    while i < n:
        out.append(base + i)
        i += 1
    return out


def small_concrete(v, limit=N_MAX + 2):
    """Replace a symbolic int below `limit` by the equal concrete int (forks `limit` ways).
    Needed because CrossHair's lazy slice views of a list alias the list: `x = l[0:sym]; del
    l[0:sym]` changes x under CrossHair but not in CPython.  Values >= limit stay symbolic."""
    if v is None:
        return None
    i = 0
    while i < limit:
        if v == i:
            return i
        i += 1
    return v
TYPES = ['PullInstancesWithPath', 'PullInstancePaths', 'PullInstances']


class Prov:
    """Minimal provider state: the real methods are called unbound on this object."""
    disable_pull_operations = False

    def __init__(self, ns_ok):
        self.enumeration_contexts = {}
        self.ns_ok = ns_ok
        self.counter = 0

    def validate_namespace(self, ns):
        if not self.ns_ok:
            raise CIMError(CIM_ERR_INVALID_NAMESPACE, 'gone')

    def _create_contextid(self):
        self.counter += 1
        return 'new%d' % self.counter

    _validate_pull_operations_enabled = MainProvider._validate_pull_operations_enabled


def _pull_step(n: int, n2: int, moc: Optional[int], ctype: int, rtype: int, which: int,
              ns_ok: bool, dflt: int):
    if kf.skip('c14_pull:pull_step', n=n, n2=n2, moc=moc, ctype=ctype, rtype=rtype, which=which, ns_ok=ns_ok):
        return None
    moc = small_concrete(moc)
    # the server's default batch size is configuration (pywbem_mock.config): any value >= 1
    mp.DEFAULT_MAX_OBJECT_COUNT = small_concrete(dflt) if moc is None else dflt
    p = Prov(ns_ok)
    mine = mklist(n)
    other = mklist(n2, 100)
    p.enumeration_contexts['c1'] = {'pull_type': TYPES[ctype], 'data': list(mine), 'namespace': 'ns'}
    p.enumeration_contexts['c2'] = {'pull_type': TYPES[(ctype + 1) % 3], 'data': list(other), 'namespace': 'ns'}
    ctx = ['c1', 'c2', 'stale'][which]
    before = {k: (v['pull_type'], list(v['data'])) for k, v in p.enumeration_contexts.items()}
    try:
        objs, eos, cid = MainProvider._pull_response(p, TYPES[rtype], ctx, moc)
    except CIMError as e:
        after = {k: (v['pull_type'], list(v['data'])) for k, v in p.enumeration_contexts.items()}
        if after != before:
            return 'refused pull changed the context table'
        if which == 2 or (which == 0 and rtype != ctype) or (which == 1 and rtype != (ctype + 1) % 3):
            if ns_ok and e.status_code != CIM_ERR_INVALID_ENUMERATION_CONTEXT:
                return 'wrong status code for stale/wrong-type context'
            if e.status_code not in (CIM_ERR_INVALID_ENUMERATION_CONTEXT, CIM_ERR_INVALID_NAMESPACE):
                return 'wrong status code'
            return None
        if not ns_ok and e.status_code == CIM_ERR_INVALID_NAMESPACE:
            return None
        return 'valid pull refused'
    if which == 2:
        return 'stale context accepted'
    src, oth, okey = (mine, other, 'c2') if which == 0 else (other, mine, 'c1')
    want_type = ctype if which == 0 else (ctype + 1) % 3
    if rtype != want_type:
        return 'wrong pull type accepted'
    if not ns_ok:
        return 'pull accepted although namespace is gone'
    TAGS.append('ok')
    k = len(objs)
    if moc is not None and k > moc:
        return 'more than MaxObjectCount delivered'
    if moc is None and k > dflt:
        return 'more than the default batch delivered'
    if list(objs) != src[:k]:
        return 'delivered is not the prefix of the remaining objects'
    rem = p.enumeration_contexts[ctx]['data'] if ctx in p.enumeration_contexts else []
    if list(rem) != src[k:] and not (eos == 'TRUE' and k == len(src)):
        return 'remaining is not the suffix'
    if (eos == 'TRUE') != (k == len(src)):
        return 'eos flag inconsistent with remaining objects'
    if (eos == 'TRUE') != (ctx not in p.enumeration_contexts):
        return 'context kept after eos / dropped before eos'
    if eos == 'TRUE' and cid not in ('', None):
        return 'context id returned with eos'
    if eos != 'TRUE' and cid != ctx:
        return 'different context id returned'
    if moc is not None and moc > 0 and k == 0 and eos != 'TRUE':
        return 'no progress with MaxObjectCount > 0'
    if eos != 'TRUE' and len(rem) < 1:
        return 'invariant: open context without objects'
    if okey not in p.enumeration_contexts or list(p.enumeration_contexts[okey]['data']) != oth:
        return 'other session disturbed'
    return None


def pull_step(n: int, n2: int, moc: Optional[int], ctype: int, rtype: int, which: int,
              ns_ok: bool, dflt: int) -> Optional[str]:
    """
    pre: 1 <= n <= N_MAX and 1 <= n2 <= 2
    pre: moc is None or moc >= 0
    pre: 0 <= ctype < 3 and 0 <= rtype < 3 and 0 <= which < 3
    pre: in_part(which * 3 + rtype)
    pre: dflt >= 1
    post: _ is None
    """
    return _pull_step(n, n2, moc, ctype, rtype, which, ns_ok, dflt)


def pull_step_reach(n: int, n2: int, moc: Optional[int], ctype: int, rtype: int, which: int,
                    ns_ok: bool, dflt: int) -> bool:
    """
    pre: 1 <= n <= N_MAX and 1 <= n2 <= 2
    pre: moc is None or moc >= 0
    pre: 0 <= ctype < 3 and 0 <= rtype < 3 and 0 <= which < 3
    pre: dflt >= 1
    post: _
    """
    del TAGS[:]
    r = _pull_step(n, n2, moc, ctype, rtype, which, ns_ok, dflt)
    return not ('ok' in TAGS and r is None and moc is not None and 0 < moc < n and which == 0)


def _open_step(n: int, moc: Optional[int], preexisting: int, dflt: int):
    if kf.skip('c14_pull:open_step', n=n, moc=moc, preexisting=preexisting):
        return None
    moc = small_concrete(moc)
    mp.DEFAULT_MAX_OBJECT_COUNT = small_concrete(dflt) if moc is None else dflt
    p = Prov(True)
    for i in range(preexisting):
        p.enumeration_contexts['old%d' % i] = {'pull_type': TYPES[0], 'data': [1], 'namespace': 'ns'}
    objs = mklist(n)
    rtn, eos, cid = MainProvider._open_response(p, 'ns', list(objs), TYPES[0], None, moc, None)
    k = len(rtn)
    if moc is not None and k > moc:
        return 'more than MaxObjectCount delivered on open'
    if moc is None and k > dflt:
        return 'more than the default batch delivered on open'
    if list(rtn) != objs[:k]:
        return 'open did not deliver a prefix'
    if (eos == 'TRUE') != (k == n):
        return 'eos inconsistent on open'
    nctx = len(p.enumeration_contexts) - preexisting
    if eos == 'TRUE':
        if nctx != 0:
            return 'context registered although eos'
    else:
        if nctx != 1 or cid not in p.enumeration_contexts:
            return 'context not registered'
        ent = p.enumeration_contexts[cid]
        if list(ent['data']) != objs[k:] or len(ent['data']) < 1:
            return 'registered context does not hold the suffix'
        if ent['pull_type'] != TYPES[0] or ent['namespace'] != 'ns':
            return 'registered context has wrong type/namespace'
        TAGS.append('ctx')
    return None


def open_step(n: int, moc: Optional[int], preexisting: int, dflt: int) -> Optional[str]:
    """
    pre: 0 <= n <= N_MAX
    pre: moc is None or moc >= 0
    pre: 0 <= preexisting <= 2
    pre: dflt >= 1
    pre: in_part(n)
    post: _ is None
    """
    return _open_step(n, moc, preexisting, dflt)


def open_step_reach(n: int, moc: Optional[int], preexisting: int, dflt: int) -> bool:
    """
    pre: 0 <= n <= N_MAX
    pre: moc is None or moc >= 0
    pre: 0 <= preexisting <= 2
    pre: dflt >= 1
    post: _
    """
    del TAGS[:]
    r = _open_step(n, moc, preexisting, dflt)
    return not ('ctx' in TAGS and r is None and moc is None)


def _close_step(which: int, nctx: int, disabled: bool):
    p = Prov(True)
    p.disable_pull_operations = disabled
    for i in range(nctx):
        p.enumeration_contexts['c%d' % i] = {'pull_type': TYPES[0], 'data': [1], 'namespace': 'ns'}
    keys = set(p.enumeration_contexts)
    ctx = 'c%d' % which
    try:
        MainProvider.CloseEnumeration(p, ctx)
    except CIMError as e:
        if set(p.enumeration_contexts) != keys:
            return 'refused close changed the table'
        if disabled:
            return None if e.status_code == pywbem.CIM_ERR_NOT_SUPPORTED else 'wrong code (disabled)'
        if ctx in keys:
            return 'valid close refused'
        return None if e.status_code == CIM_ERR_INVALID_ENUMERATION_CONTEXT else 'wrong code for stale close'
    if disabled:
        return 'close accepted although pull disabled'
    if ctx not in keys:
        return 'stale close accepted'
    if set(p.enumeration_contexts) != keys - {ctx}:
        return 'close removed the wrong set'
    TAGS.append('closed')
    # second close of the same context must be refused
    try:
        MainProvider.CloseEnumeration(p, ctx)
    except CIMError as e:
        return None if e.status_code == CIM_ERR_INVALID_ENUMERATION_CONTEXT else 'wrong code on re-close'
    return 'context accepted after CloseEnumeration'


def close_step(which: int, nctx: int, disabled: bool) -> Optional[str]:
    """
    pre: 0 <= which <= 3 and 0 <= nctx <= 3
    post: _ is None
    """
    return _close_step(which, nctx, disabled)


def close_step_reach(which: int, nctx: int, disabled: bool) -> bool:
    """
    pre: 0 <= which <= 3 and 0 <= nctx <= 3
    post: _
    """
    del TAGS[:]
    r = _close_step(which, nctx, disabled)
    return not ('closed' in TAGS and r is None)


# ---------------------------------------------------------------------------------------
# H2 client step: the real WBEMConnection._get_rslt_params / _validate_context /
# _validate_MaxObjectCount_OpenPull on an arbitrary open/pull reply (client half of the
# session: eos / context / objects are handed to the caller exactly as the server sent them).
import pywbem._cim_operations as co

co._format = lambda *a, **k: 'msg'     # stub: message formatting (not the subject)
EOS_TEXT = ['true', 'TRUE', 'True', 'tRuE', 'false', 'FALSE', 'False', 'fAlSe']
ORDERS = [(0, 1, 2), (0, 2, 1), (1, 0, 2), (1, 2, 0), (2, 0, 1), (2, 1, 0)]


class _Conn:
    conn_id = 'c14'


def _client_step(eos_sel, ctx_present, ctx_null, ctx, n, order, ns, moc, ctx_shape):
    order = small_concrete(order, 6)
    if not in_part(order):
        return None
    # reply as _imethodcall hands it over: list of (name, attrs, value) in any order
    objs = mklist(small_concrete(n, 4), 100)
    items = [None, None, None]
    if eos_sel >= 0:
        items[0] = ('EndOfSequence', {}, EOS_TEXT[eos_sel])
    if ctx_present:
        items[1] = ('EnumerationContext', {}, None if ctx_null else ctx)
    items[2] = ('IRETURNVALUE', {}, objs)
    result = []
    for k in ORDERS[order]:
        if items[k] is not None:
            result.append(items[k])
    eos_sent = eos_sel >= 0 and eos_sel < 4
    have_ctx = ctx_present and not ctx_null
    try:
        got = co.WBEMConnection._get_rslt_params(_Conn(), result, ns)
    except pywbem.ParseError:
        TAGS.append('refused')
        if eos_sel < 0 and not ctx_present:
            return None
        if not eos_sent and not have_ctx:
            return None
        return 'well-formed open/pull reply refused by the client'
    if (eos_sel < 0 and not ctx_present) or (not eos_sent and not have_ctx):
        return 'reply without eos and without context accepted (session could never end)'
    r_objs, r_eos, r_ctx = got
    if list(r_objs) != objs:
        return 'objects of the reply lost or changed by the client'
    if r_eos is not eos_sent:
        return 'eos reported differently from what the server sent'
    if eos_sent:
        if r_ctx is not None:
            return 'context still handed out after eos'
        TAGS.append('eos')
    else:
        if not (isinstance(r_ctx, tuple) and len(r_ctx) == 2 and r_ctx[0] == ctx and r_ctx[1] == ns):
            return 'context tuple is not (server context, namespace)'
        TAGS.append('open')
        # the context the client hands out must be accepted by its own validator on the next pull
        try:
            co._validate_context(r_ctx)
        except (TypeError, ValueError):
            return 'context handed out by the client refused by its own validator'
    # validators: MaxObjectCount >= 0 or None accepted, negative refused; contexts of wrong shape refused
    if n != 0:
        return None
    try:
        co._validate_MaxObjectCount_OpenPull(moc)
        if moc is not None and moc < 0:
            return 'negative MaxObjectCount accepted'
    except ValueError:
        if moc is None or moc >= 0:
            return 'valid MaxObjectCount refused'
    bad = [None, (), ('x',), ('x', 'y', 'z'), ['x']][ctx_shape]
    try:
        co._validate_context(bad)
        return 'malformed context accepted'
    except (TypeError, ValueError):
        pass
    return None


def client_step(eos_sel: int, ctx_present: bool, ctx_null: bool, ctx: str, n: int, order: int, ns: str,
                moc: Optional[int], ctx_shape: int) -> Optional[str]:
    """
    pre: -1 <= eos_sel < 8 and 0 <= n <= 3 and 0 <= order < 6 and len(ctx) <= 3 and len(ns) <= 3 and 0 <= ctx_shape < 5
    post: _ is None
    """
    return _client_step(eos_sel, ctx_present, ctx_null, ctx, n, order, ns, moc, ctx_shape)


def client_step_reach(eos_sel: int, ctx_present: bool, ctx_null: bool, ctx: str, n: int, order: int, ns: str,
                      moc: Optional[int], ctx_shape: int) -> bool:
    """
    pre: -1 <= eos_sel < 8 and 0 <= n <= 3 and 0 <= order < 6 and len(ctx) <= 3 and len(ns) <= 3 and 0 <= ctx_shape < 5
    post: _
    """
    del TAGS[:]
    r = _client_step(eos_sel, ctx_present, ctx_null, ctx, n, order, ns, moc, ctx_shape)
    return not ('open' in TAGS and r is None)
