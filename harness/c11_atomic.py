"""C11 harness (E1): a failed mock-repository operation changes nothing.

fail_step(): from a selector-chosen pre-state, ONE repository-changing call that is made to
fail for a selector-chosen reason at a selector-chosen position k of a batch; if the call
raises, the complete repository dump (namespaces, classes, instances, qualifier types)
must equal the dump taken before the call.
"""
import warnings
warnings.simplefilter('ignore')
import pickle
from typing import Optional
from verifpw import kf, mode
import pywbem
import pywbem_mock
from pywbem import (CIMError, Error, CIMInstance, CIMInstanceName, CIMClass, CIMProperty, CIMQualifier, CIMQualifierDeclaration,
                    CIMClassName, Uint32)

PART, NPARTS = mode.part()
TAGS = []
QUALS = '''
Qualifier Key : boolean = false, Scope(property, reference), Flavor(DisableOverride, ToSubclass);
Qualifier Association : boolean = false, Scope(association), Flavor(DisableOverride, ToSubclass);
Qualifier Description : string = null, Scope(any), Flavor(EnableOverride, ToSubclass, Translatable);
'''
BASE = QUALS + '''
class C_A { [Key] string K; uint32 V; };
class C_B : C_A { uint32 W; };
[Association] class C_Assoc { [Key] C_A REF Left; [Key] C_A REF Right; };
instance of C_A { K = "a1"; V = 1; };
'''
NSMOF = '''
class CIM_Namespace { [Key] string Name; [Key] string CreationClassName; [Key] string SystemName; [Key] string SystemCreationClassName;
  [Key] string ObjectManagerName; [Key] string ObjectManagerCreationClassName; };
class CIM_ObjectManager { [Key] string Name; [Key] string CreationClassName; [Key] string SystemName; [Key] string SystemCreationClassName; };
'''


def build():
    conn = pywbem_mock.FakedWBEMConnection(default_namespace='root/a')
    conn.add_namespace('root/b')
    conn.add_namespace('interop')
    for ns in ('root/a', 'root/b'):
        conn.compile_mof_string(BASE, namespace=ns)
    conn.compile_mof_string(QUALS + NSMOF, namespace='interop')
    try:
        conn.install_namespace_provider('interop')
        conn.nsprov = True
    except Exception as e:      # noqa  (recorded: the namespace-provider cases are then skipped)
        conn.nsprov = False
        conn.nsprov_err = repr(e)
    return conn




def restore(state):
    CONN.cimrepository.load(pickle.loads(REPOS[state]))


def apath(ns, k):
    return CIMInstanceName('C_A', {'K': k}, namespace=ns)


def assoc_inst(ns, lns, rns):
    l, r = apath(lns, 'a1'), apath(rns, 'a1')
    return CIMInstance('C_Assoc', properties=[CIMProperty('Left', l, reference_class='C_A'), CIMProperty('Right', r, reference_class='C_A')],
                       path=CIMInstanceName('C_Assoc', {'Left': l, 'Right': r}, namespace=ns))


CONN = build()
REPOS = [pickle.dumps(CONN.cimrepository)]
# second pre-state: a subclass instance and an association instance that exists only in root/a
CONN.compile_mof_string('instance of C_B { K = "b1"; V = 2; W = 3; };', namespace='root/a')
CONN.cimrepository.get_instance_store('root/a').create(assoc_inst('root/a', 'root/a', 'root/b').path, assoc_inst('root/a', 'root/a', 'root/b'))
REPOS.append(pickle.dumps(CONN.cimrepository))


def dump():
    out = []
    repo = CONN.cimrepository
    for ns in sorted(repo.namespaces):
        out.append(('ns', ns))
        for c in sorted(repo.get_class_store(ns).iter_values(), key=lambda c: c.classname.lower()):
            out.append(('class', ns, c.tomof()))
        for q in sorted(repo.get_qualifier_store(ns).iter_values(), key=lambda q: q.name.lower()):
            out.append(('qual', ns, q.tomof()))
        for i in sorted(repo.get_instance_store(ns).iter_values(), key=lambda i: str(i.path)):
            out.append(('inst', ns, str(i.path), i.tomof()))
    return out


GOOD_MOF = ['class N_%d { [Key] string K; };', 'instance of C_A { K = "n%d"; V = 5; };', 'class N_%d : C_A { string Extra; };']
BAD_MOF = ['class C_A { [Key] string K; };',                     # duplicate class
           'class Bad_%d : NoSuchSuper { string X; };',           # missing superclass
           'class Bad_%d { [NoSuchQual] string X; };',            # undeclared qualifier
           'instance of C_A { K = "a1"; V = 7; };',               # duplicate instance
           'instance of NoSuchClass { K = "x"; };',               # instance of unknown class
           'instance of C_A { K = "q%d"; Nope = 3; };',           # undeclared property
           'class Bad_%d { string X = ; };',                      # syntax error
           'instance of C_A { K = "q%d"; V = "notanumber"; };']   # type mismatch


def good_obj(i):
    if i % 2 == 0:
        return CIMClass('N_%d' % i, properties=[CIMProperty('K', None, type='string', qualifiers=[CIMQualifier('Key', True)])])
    return CIMInstance('C_A', properties={'K': 'n%d' % i, 'V': Uint32(5)}, path=apath('root/a', 'n%d' % i))


def bad_obj(r, i):
    if r == 0:
        return CIMClass('C_A', properties=[CIMProperty('K', None, type='string')])                 # duplicate class
    if r == 1:
        return CIMClass('Bad_%d' % i, superclass='NoSuchSuper')                                    # missing superclass
    if r == 2:
        return CIMInstance('C_A', properties={'K': 'a1'}, path=apath('root/a', 'a1'))              # duplicate instance
    if r == 3:
        return CIMInstance('C_A', properties={'K': 'x%d' % i})                                     # instance without path
    if r == 4:
        return 'not a cim object'                                                                  # wrong type
    if r == 5:
        return CIMQualifierDeclaration('Key', 'boolean', scopes={'PROPERTY': True})                # duplicate qualifier type
    if r == 6:
        return CIMInstance('NoSuchClass', properties={'K': 'x'}, path=CIMInstanceName('NoSuchClass', {'K': 'x'}, namespace='root/a'))
    return CIMClass('Bad_%d' % i, properties=[CIMProperty('X', None, type='string', qualifiers=[CIMQualifier('NoSuchQual', True)])])


CALLS = ['compile_mof_string', 'add_cimobjects', 'CreateClass', 'ModifyClass', 'DeleteClass', 'SetQualifier', 'DeleteQualifier',
         'CreateInstance', 'ModifyInstance', 'DeleteInstance', 'CreateInstance-multi-ns', 'add_namespace', 'remove_namespace',
         'DeleteInstance-CIM_Namespace', 'ModifyInstance-multi-ns']


def do_call(call, n, k, r, ns):
    c = CALLS[call]
    if c == 'compile_mof_string':
        parts = [GOOD_MOF[i % 3] % i for i in range(n)]
        bad = BAD_MOF[r % len(BAD_MOF)]
        parts[k] = (bad % k) if '%d' in bad else bad
        CONN.compile_mof_string('\n'.join(parts), namespace=ns)
    elif c == 'add_cimobjects':
        objs = [good_obj(i) for i in range(n)]
        objs[k] = bad_obj(r % 8, k)
        CONN.add_cimobjects(objs if n > 1 or r % 2 else objs[0], namespace=ns)
    elif c == 'CreateClass':
        CONN.CreateClass(bad_obj([0, 1, 7][r % 3], k), namespace=ns)
    elif c == 'ModifyClass':
        CONN.ModifyClass([CIMClass('NoSuch'), CIMClass('C_B', superclass='NoSuchSuper'), bad_obj(7, 0)][r % 3], namespace=ns)
    elif c == 'DeleteClass':
        CONN.DeleteClass(['NoSuch', CIMClassName('C_None')][r % 2], namespace=ns)
    elif c == 'SetQualifier':
        CONN.SetQualifier([CIMQualifierDeclaration('Key', 'string', scopes={'PROPERTY': True}), 'x'][r % 2], namespace=ns)
    elif c == 'DeleteQualifier':
        CONN.DeleteQualifier(['NoSuchQ', 'Key'][r % 2], namespace=ns)
    elif c == 'CreateInstance':
        inst = [CIMInstance('C_A', properties={'K': 'a1', 'V': Uint32(2)}), CIMInstance('NoSuchClass', properties={'K': 'x'}),
                CIMInstance('C_A', properties={'K': 'new', 'Nope': 'x'}), CIMInstance('C_A', properties={'K': 'new', 'V': 'str'}),
                CIMInstance('C_A', properties={'V': Uint32(1)})][r % 5]
        CONN.CreateInstance(inst, namespace=ns)
    elif c == 'ModifyInstance':
        inst = [CIMInstance('C_A', properties={'K': 'none', 'V': Uint32(2)}, path=apath(ns, 'none')),
                CIMInstance('C_A', properties={'K': 'a1', 'Nope': 'x'}, path=apath(ns, 'a1')),
                CIMInstance('C_A', properties={'K': 'changed', 'V': Uint32(2)}, path=apath(ns, 'a1')),
                CIMInstance('C_A', properties={'K': 'a1', 'V': 'str'}, path=apath(ns, 'a1'))][r % 4]
        CONN.ModifyInstance(inst, PropertyList=[None, ['V'], ['Nope']][k % 3])
    elif c == 'DeleteInstance':
        CONN.DeleteInstance([apath(ns, 'none'), CIMInstanceName('NoSuchClass', {'K': 'x'}, namespace=ns)][r % 2])
    elif c == 'CreateInstance-multi-ns':
        # association across namespaces; fails when it already exists in one of them (state 1) or an end is missing
        lns, rns = [('root/a', 'root/b'), ('root/b', 'root/a'), ('root/a', 'root/none')][r % 3]
        CONN.CreateInstance(assoc_inst(None, lns, rns), namespace=ns)
    elif c == 'ModifyInstance-multi-ns':
        a = assoc_inst(ns, 'root/a', 'root/b')
        a.properties['Left'].value = apath('root/a', 'other')
        CONN.ModifyInstance(a)
    elif c == 'add_namespace':
        CONN.add_namespace(['root/a', 'ROOT/B', '/root/a/'][r % 3])
    elif c == 'remove_namespace':
        CONN.remove_namespace(['root/a', 'root/none', 'interop'][r % 3])
    else:
        if not CONN.nsprov:
            return 'skip'
        names = CONN.EnumerateInstanceNames('CIM_Namespace', namespace='interop')
        tgt = [p for p in names if p['Name'].lower() == ['root/a', 'root/b', 'interop'][r % 3]]
        if not tgt:
            return 'skip'
        CONN.DeleteInstance(tgt[0])
    return None


def _fail_step(state: int, call: int, n: int, k: int, r: int, nsel: int):
    if kf.skip('c11_atomic:fail_step', state=state, call=CALLS[call], n=n, k=k, r=r, nsel=nsel):
        return None
    restore(state)
    ns = ['root/a', 'root/b', 'root/none'][nsel]
    before = dump()
    try:
        sk = do_call(call, n, k, r, ns)
    except (Error, ValueError, TypeError, OSError, AssertionError) as e:
        TAGS.append('raised')
        after = dump()
        if after != before and kf.skip('c11_atomic:fail_step:batch', call=CALLS[call], k=k):
            return None
        if after != before:
            diff = [x for x in after if x not in before][:2] + [x for x in before if x not in after][:2]
            return '%s raised %s but changed the repository: %s' % (CALLS[call], type(e).__name__, str([d[:3] for d in diff])[:300])
        return None
    if sk == 'skip':
        return None
    TAGS.append('succeeded')
    return None


def _run(state, call, n, k, r, nsel):
    if mode.REPLAY:
        return _fail_step(state, call, n, k, r, nsel)
    from crosshair.core import realize
    from crosshair.tracers import NoTracing
    from selpick import pick_all
    a = pick_all((state, call, n, k, r, nsel))
    with NoTracing():
        return _fail_step(*a)


def fail_step(state: int, call: int, n: int, k: int, r: int, nsel: int) -> Optional[str]:
    """
    pre: 0 <= state <= 1 and 0 <= call < len(CALLS) and 1 <= n <= NMAX and 0 <= k < n and 0 <= r <= 7 and 0 <= nsel <= 2
    pre: call <= 1 or n == 1 or call == 8
    pre: call % NPARTS == PART
    post: _ is None
    """
    return _run(state, call, n, k, r, nsel)


NMAX = 3 if mode.tier() == 'quick' else 4


def fail_step_reach(state: int, call: int, n: int, k: int, r: int, nsel: int) -> bool:
    """
    pre: 0 <= state <= 1 and 0 <= call < len(CALLS) and 1 <= n <= NMAX and 0 <= k < n and 0 <= r <= 7 and 0 <= nsel <= 2
    pre: call <= 1 or n == 1 or call == 8
    pre: call % NPARTS == PART
    post: _
    """
    del TAGS[:]
    r_ = _run(state, call, n, k, r, nsel)
    return not (r_ is None and 'raised' in TAGS)
