"""Selector decoding for the "solver-enumerated scenario" harnesses.

`realize()` on a symbolic int lets CrossHair pick model values one at a time; measured on
this code base that revisits assignments and does not reach "Confirmed over all paths"
(C02-H3b: 2 600 paths for 572 assignments, unconfirmed after 120 s; C07-H1 thorough: 296 000
paths for 80 000 assignments).  pick() determines the value by a binary search of
comparisons instead: every comparison is a recorded branch of CrossHair's decision tree,
infeasible sides are pruned by z3 against the precondition, each feasible value is one leaf,
visited once, and exhaustion is detected.  Must be called while tracing is on.
"""


def pick(x, lo=None, hi=None):
    """Concrete value of the symbolic int x (the precondition confines it to a finite range)."""
    if lo is None or hi is None:
        if x >= 0:
            lo, hi = 0, 1
            while x > hi:
                hi = hi * 2 + 1
        else:
            lo, hi = -2, -1
            while x < lo:
                lo = lo * 2
    while lo < hi:
        mid = (lo + hi) // 2
        if x <= mid:
            hi = mid
        else:
            lo = mid + 1
    return lo


def flag(b):
    """Concrete value of a symbolic bool (one fork)."""
    return True if b else False


def pick_all(args):
    out = []
    for x in args:
        if x is None or isinstance(x, (str, bytes)):
            out.append(x)
        elif isinstance(x, bool):
            out.append(flag(x))
        else:
            out.append(pick(x))
    return out
