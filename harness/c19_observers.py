"""C19 harnesses (E1): logging, recorders, statistics and debug never change what an
operation returns.

differential(): the same operation against the same scripted server runs on a bare
connection and on a connection with an observer configuration built from symbolic selectors
(logger name, detail level incl. integer maximum lengths, recorder, statistics, debug); the
outcome (value or exception type and status) must be identical, statistics count exactly
once, last_raw_request/last_raw_reply equal the bytes exchanged, the password appears in no
log record / recorder output / str() / repr().  The scripted server checks the Authorization
header like a real server (401 otherwise).

truncate(): LogOperationRecorder.stage_http_request / stage_http_response2 /
stage_pywbem_result with a SYMBOLIC maximum length on UTF-8 payloads never raise.
"""
import warnings
warnings.simplefilter('ignore')
import base64
import io
import logging
from typing import Optional
from verifpw import kf, mode
import requests
from requests.adapters import BaseAdapter
import pywbem
from pywbem import (WBEMConnection, CIMInstanceName, CIMInstance, CIMClassName, Error, CIMError, Uint8, LogOperationRecorder, TestClientRecorder,
                    configure_logger)
import pywbem._recorder as recm
import pywbem._cim_xml as cx

PART, NPARTS = mode.part()
TAGS = []
PW = 'S3cr3t-pw-ü'
USER = 'theuser'
EXPECT_AUTH = 'Basic ' + base64.b64encode(('%s:%s' % (USER, PW)).encode('utf-8')).decode('ascii')


def imrsp(op, kids):
    return cx.CIM(cx.MESSAGE(cx.SIMPLERSP(cx.IMETHODRESPONSE(op, kids)), '1001', '1.0'), '2.0', '2.0').toxml().encode('utf-8')


INST = CIMInstance('C_é', properties={'k': 'vü中', 'n': Uint8(1)})
PATH = CIMInstanceName('C_é', {'k': 'vü'})
OPS = [
    ('GetInstance', lambda c: c.GetInstance(CIMInstanceName('C', {'k': 'v'})), lambda: [cx.IRETURNVALUE(INST.tocimxml())]),
    ('EnumerateInstanceNames', lambda c: c.EnumerateInstanceNames('C'), lambda: [cx.IRETURNVALUE([PATH.tocimxml(), PATH.tocimxml()])]),
    ('EnumerateInstances', lambda c: c.EnumerateInstances('C'),
     lambda: [cx.IRETURNVALUE([cx.VALUE_NAMEDINSTANCE(PATH.tocimxml(), INST.tocimxml())])]),
    ('DeleteInstance', lambda c: c.DeleteInstance(CIMInstanceName('C', {'k': 'v'})), lambda: []),
    ('OpenQueryInstances', lambda c: c.OpenQueryInstances('WQL', 'select * from C', MaxObjectCount=5),
     lambda: [cx.IRETURNVALUE([INST.tocimxml()]), cx.PARAMVALUE('EndOfSequence', cx.VALUE('TRUE'), 'boolean'),
              cx.PARAMVALUE('EnumerationContext', None, 'string')]),
    ('OpenEnumerateInstancePaths', lambda c: c.OpenEnumerateInstancePaths('C', MaxObjectCount=5),
     lambda: [cx.IRETURNVALUE([cx.INSTANCEPATH(cx.NAMESPACEPATH(cx.HOST('h'), cx.LOCALNAMESPACEPATH([cx.NAMESPACE('n')])), PATH.tocimxml())]),
              cx.PARAMVALUE('EndOfSequence', cx.VALUE('FALSE'), 'boolean'), cx.PARAMVALUE('EnumerationContext', cx.VALUE('ctx1'), 'string')]),
    ('EnumerateClassNames', lambda c: c.EnumerateClassNames(), lambda: [cx.IRETURNVALUE([cx.CLASSNAME('C1'), cx.CLASSNAME('C2')])]),
]
REPLIES = ['success', 'cim-error', 'bad-xml', 'http-500', 'conn-error', 'bad-utf8']


class Raw:
    version = 11


class Server(BaseAdapter):
    """Scripted server: checks the Authorization header like a real one."""
    def __init__(self, op, reply):
        super().__init__()
        self.op, self.reply = op, reply
        self.seen = []

    def send(self, request, **kw):
        self.seen.append(request)
        r = requests.Response()
        r.raw = Raw()
        r.request = request
        r.headers['Content-type'] = 'application/xml; charset="utf-8"'
        if request.headers.get('Authorization') != EXPECT_AUTH:
            r.status_code, r.reason, r._content = 401, 'Unauthorized', b''
            r.headers['WWW-Authenticate'] = 'Basic realm="x"'
            return r
        if self.reply == 'conn-error':
            raise requests.exceptions.ConnectionError('scripted')
        if self.reply == 'http-500':
            r.status_code, r.reason, r._content = 500, 'Server Error', b'oops'
            r.headers['CIMError'] = 'request-not-valid'
            return r
        r.status_code, r.reason = 200, 'OK'
        name = OPS[self.op][0]
        if self.reply == 'success':
            r._content = imrsp(name, OPS[self.op][2]())
        elif self.reply == 'cim-error':
            r._content = imrsp(name, [cx.ERROR('6', 'not found ü')])
        elif self.reply == 'bad-xml':
            r._content = b'<?xml version="1.0"?><CIM><MESSAGE'
        else:
            r._content = b'<?xml version="1.0"?><CIM>\xff\xfe</CIM>'
        return r

    def close(self):
        pass


class Capture(logging.Handler):
    def __init__(self):
        super().__init__()
        self.lines = []

    def emit(self, record):
        self.lines.append(record.getMessage())


def outcome(call, conn):
    try:
        v = call(conn)
        return ('return', repr(v))
    except Error as e:
        return ('raise', type(e).__name__, getattr(e, 'status_code', None))
    except Exception as e:      # noqa
        return ('raise', type(e).__name__, str(e)[:80])


DETAILS = ['all', 'paths', 'summary', 0, 1, 7, 10, 50, 333]
LOGGERS = [None, 'api', 'http', 'all']


def _differential(op: int, reply: int, lg: int, dl: int, rec: bool, stats: bool, debug: bool):
    if kf.skip('c19_observers:differential', op=OPS[op][0], reply=REPLIES[reply], logger=LOGGERS[lg], detail=DETAILS[dl], rec=rec, stats=stats, debug=debug):
        return None
    name, call, _ = OPS[op]
    # bare run
    bare = WBEMConnection('http://srv', creds=(USER, PW), default_namespace='root/x')
    s1 = Server(op, REPLIES[reply])
    bare.session.mount('http://', s1)
    want = outcome(call, bare)
    # observed run
    obs = WBEMConnection('http://srv', creds=(USER, PW), default_namespace='root/x', stats_enabled=stats)
    s2 = Server(op, REPLIES[reply])
    obs.session.mount('http://', s2)
    obs.debug = debug
    cap = Capture()
    loggers = [logging.getLogger('pywbem.api'), logging.getLogger('pywbem.http')]
    yaml_out = io.StringIO()
    try:
        if LOGGERS[lg] is not None:
            configure_logger(LOGGERS[lg], log_dest=None, detail_level=DETAILS[dl], connection=obs, propagate=False)
            for l in loggers:
                l.addHandler(cap)
                l.setLevel(logging.DEBUG)
        if rec:
            obs.add_operation_recorder(TestClientRecorder(yaml_out))
        got = outcome(call, obs)
    finally:
        for l in loggers:
            l.removeHandler(cap)
            l.setLevel(logging.NOTSET)
    TAGS.append('ran')
    if got != want:
        return '%s/%s: outcome with observers %r differs from the bare outcome %r' % (name, REPLIES[reply], got[:3], want[:3])
    if len(s2.seen) != len(s1.seen):
        return '%s: observers changed the number of requests sent' % name
    if s2.seen and s1.seen and s2.seen[0].body != s1.seen[0].body:
        return '%s: observers changed the request body' % name
    if s2.seen and obs.last_raw_request is not None:
        sent = s2.seen[0].body
        sent = sent if isinstance(sent, bytes) else sent.encode('utf-8')
        lr = obs.last_raw_request if isinstance(obs.last_raw_request, bytes) else obs.last_raw_request.encode('utf-8')
        if lr not in sent:
            return '%s: last_raw_request is not the request that was sent' % name
    if REPLIES[reply] in ('success', 'cim-error', 'bad-xml', 'bad-utf8') and s2.seen and want != ('raise', 'AuthError', None):
        if obs.last_raw_reply is None:
            return '%s: last_raw_reply not set' % name
    if stats:
        snap = obs.statistics.snapshot()
        total = sum(st.count for _n, st in snap)
        if total != 1:
            return '%s/%s: statistics counted %d operations instead of 1' % (name, REPLIES[reply], total)
    for text in cap.lines + [yaml_out.getvalue(), str(obs), repr(obs)]:
        if PW in text or EXPECT_AUTH.split(' ')[1] in text:
            return '%s: the password (or its Basic encoding) appears in log/recorder/str()/repr() output' % name
    return None


def _run(*a):
    if mode.REPLAY:
        return _differential(*a)
    from crosshair.core import realize
    from crosshair.tracers import NoTracing
    from selpick import pick_all
    b = pick_all(a)
    with NoTracing():
        return _differential(*b)


def differential(op: int, reply: int, lg: int, dl: int, rec: bool, stats: bool, debug: bool) -> Optional[str]:
    """
    pre: 0 <= op < len(OPS) and 0 <= reply < len(REPLIES) and 0 <= lg < len(LOGGERS) and 0 <= dl < len(DETAILS)
    pre: op % NPARTS == PART
    post: _ is None
    """
    return _run(op, reply, lg, dl, rec, stats, debug)


def differential_reach(op: int, reply: int, lg: int, dl: int, rec: bool, stats: bool, debug: bool) -> bool:
    """
    pre: 0 <= op < len(OPS) and 0 <= reply < len(REPLIES) and 0 <= lg < len(LOGGERS) and 0 <= dl < len(DETAILS)
    pre: op % NPARTS == PART
    post: _
    """
    del TAGS[:]
    r = _run(op, reply, lg, dl, rec, stats, debug)
    return not (r is None and 'ran' in TAGS and lg > 0)


# ------------------------------------------------------------------ H2: truncation kernels with a symbolic maximum length
PAYLOADS = [b'<CIM>abc</CIM>', '<V>ü中\U00010000x</V>'.encode('utf-8'), b'', 'é'.encode('utf-8') * 3]


class _NullHandler(logging.Handler):
    def emit(self, record):
        record.getMessage()


def _truncate(which: int, psel: int, maxlen: int, kind: int):
    if kf.skip('c19_observers:truncate', which=which, psel=psel, maxlen=maxlen, kind=kind):
        return None
    r = LogOperationRecorder('conn1')
    lvl = maxlen if kind == 0 else ['all', 'paths', 'summary'][kind - 1]
    r.set_detail_level({'api': lvl, 'http': lvl})
    h = _NullHandler()
    for n in ('pywbem.api.conn1', 'pywbem.http.conn1', 'pywbem.api', 'pywbem.http'):
        lg = logging.getLogger(n)
        lg.setLevel(logging.DEBUG)
    logging.getLogger('pywbem.api').addHandler(h)
    logging.getLogger('pywbem.http').addHandler(h)
    payload = PAYLOADS[psel]
    try:
        if which == 0:
            r.stage_http_request('conn1', 11, 'http://h', '/cimom', 'POST', {'Authorization': 'Basic QUJD', 'X': 'y'}, payload)
        elif which == 1:
            r.stage_http_response1('conn1', 11, 200, 'OK', {'Content-type': 'application/xml'})
            r.stage_http_response2(payload)
        elif which == 2:
            r.stage_pywbem_result([INST, INST], None)
        elif which == 3:
            r.stage_pywbem_result(None, CIMError(6, 'dü'))
        else:
            r.stage_pywbem_args('GetInstance', InstanceName=PATH, PropertyList=['aü'])
    except Exception as e:          # noqa
        return 'LogOperationRecorder raised %s for maximum length %r' % (type(e).__name__, lvl)
    finally:
        logging.getLogger('pywbem.api').removeHandler(h)
        logging.getLogger('pywbem.http').removeHandler(h)
    TAGS.append('staged')
    return None


def truncate(which: int, psel: int, maxlen: int, kind: int) -> Optional[str]:
    """
    pre: 0 <= which <= 4 and 0 <= psel < len(PAYLOADS) and 0 <= maxlen <= 40 and 0 <= kind <= 3
    post: _ is None
    """
    return _truncate(which, psel, maxlen, kind)


def truncate_reach(which: int, psel: int, maxlen: int, kind: int) -> bool:
    """
    pre: 0 <= which <= 4 and 0 <= psel < len(PAYLOADS) and 0 <= maxlen <= 40 and 0 <= kind <= 3
    post: _
    """
    del TAGS[:]
    r = _truncate(which, psel, maxlen, kind)
    return not (r is None and 'staged' in TAGS and which == 1 and kind == 0)
