"""Shared plumbing for C03/C04: capture the request a real WBEMConnection operation puts on
the wire, and decode it the way a server would.

Search mode (CrossHair): `_cim_xml.CIM.toxml` is replaced by a capture of the DOM element
(serialisation is plain minidom) and `wbem_request` by a capture of the CIM-XML extension
headers; the tuple tree comes from model X (verifpw.xmlmodel.dom2tt).
Replay mode: the real toxml() runs; the captured bytes are parsed by real expat and validated
with lxml against the DTD.
"""
import warnings
warnings.simplefilter('ignore')
from verifpw import mode
from verifpw.xmlmodel import dom2tt, IllFormed
import pywbem
from pywbem import WBEMConnection, CIMInstanceName, CIMClassName, CIMInstance, CIMClass, CIMProperty, CIMQualifierDeclaration
import pywbem._cim_operations as ops
import pywbem._cim_xml as cx
import pywbem._cim_obj as com
import pywbem._cim_http as httpm
from pywbem._tupleparse import TupleParser
import pywbem._tupleparse as tpm


class Stop(pywbem.ConnectionError):
    """Raised by the transport stub once the request has been captured."""


CAP = {}


def _fake_wbem_request(conn, req_data, cimxml_headers, target_type='server'):
    CAP['headers'] = list(cimxml_headers)
    CAP['data'] = req_data
    raise Stop('captured')


ops.wbem_request = _fake_wbem_request
_orig_toxml = cx.CIM.toxml
if not mode.REPLAY:
    for _m in (ops, com, tpm):
        _m._format = lambda *a, **k: 'msg'

    def _capture_toxml(self, *a, **k):
        CAP['dom'] = self
        return 'X'
else:
    def _capture_toxml(self, *a, **k):
        CAP['dom'] = self
        return _orig_toxml(self, *a, **k)
cx.CIM.toxml = _capture_toxml


def capture(call, conn):
    """Run one operation; returns ('local-error', exc) if it failed before sending, else
    ('sent', dom-or-None, headers, data)."""
    CAP.clear()
    try:
        call(conn)
    except Stop:
        return ('sent', CAP.get('dom'), CAP.get('headers'), CAP.get('data'))
    except Exception as e:      # C03: 'the call fails locally with an exception'; C04 judges the exception type
        return ('local-error', e)
    return ('no-request', None)


def request_tt(cap):
    """Tuple tree of the captured request (model X in search mode, real expat on replay)."""
    if mode.REPLAY:
        from pywbem._tupletree import xml_to_tupletree_sax
        try:
            return xml_to_tupletree_sax(cap[3], 'replay')
        except pywbem.XMLParseError as e:
            raise IllFormed(str(e)[:200])
    return dom2tt(cap[1])


def server_decode(tt):
    """Decode a request tuple tree with pywbem's own server-side parsers.
    Returns (kind, methodname, namespace, localobject, params-list)."""
    tup = TupleParser().parse_cim(tt)
    msg = tup[2]
    req = msg[2]
    call = req[2]
    if call[0] == 'IMETHODCALL':
        return ('intrinsic', call[1]['NAME'], call[2], None, call[3])
    return ('extrinsic', call[1]['NAME'], None, call[2], call[3])


def lxml_validate(data):
    from lxml import etree
    from verifpw import dtd
    d = etree.DTD(open(dtd.DTD_PATH))
    try:
        doc = etree.fromstring(data.encode('utf-8') if isinstance(data, str) else data)
    except etree.XMLSyntaxError as e:
        return 'not well-formed: %s' % e
    if not d.validate(doc):
        return 'DTD-invalid: %s' % d.error_log.filter_from_errors()[0]
    return None
