"""C04 harnesses (E1): operations over CIM-XML equal the same operations done directly.

H1 seen_by_server(): the real client marshals an operation; the request is decoded with
    pywbem's own server-side parsers (parse_imethodcall / parse_methodcall, model X in between);
    the decoded operation name, target namespace (default applied) and parameters must be exactly
    what the caller supplied, None-valued parameters omitted.
H2 invoke_reply(): the server side encodes an InvokeMethod result (return value and typed output
    parameters incl. arrays, NULL entries, references, embedded instances) with pywbem's own
    encoders; the real client path (_methodcall) must return the same values.
H3 loop(): full loop on a small mock repository for instance operations: request decoded,
    executed on a FakedWBEMConnection, result encoded per DSP0200, decoded by the real client;
    compared with the direct FakedWBEMConnection call (object-level, no XML).
"""
import warnings
warnings.simplefilter('ignore')
import pickle
from typing import Optional
from verifpw import kf, mode
from verifpw.xmlmodel import dom2tt, IllFormed, has_ws, has_cr
import cimcmp
import wire
from wire import capture, request_tt, server_decode
import c01_roundtrip as c01           # typed pool + datetime tracing patches
import pywbem
from pywbem import (WBEMConnection, CIMInstanceName, CIMClassName, CIMInstance, CIMClass, CIMProperty, CIMParameter, CIMQualifier,
                    CIMQualifierDeclaration, CIMError, Error, Uint8, Uint32, Real64, CIMDateTime)
import pywbem._cim_operations as ops
import pywbem._cim_xml as cx
import pywbem_mock

PART, NPARTS = mode.part()
TAGS = []
SMAX = 2 if mode.tier() == 'quick' else 3
CONNS = [WBEMConnection('http://h', default_namespace='root/cimv2'), WBEMConnection('http://h', default_namespace='a/b')]
DEFNS = ['root/cimv2', 'a/b']


def path(cn, kv, ns=None, host=None):
    return CIMInstanceName(cn, keybindings=[('k', kv), ('n', Uint8(3))], namespace=ns, host=host)


def inst(cn, kv, sv):
    return CIMInstance(cn, properties=[CIMProperty('k', kv), CIMProperty('n', Uint8(3)), CIMProperty('s', sv, type='string'),
                                       CIMProperty('a', [Uint8(1), None], type='uint8')], path=path(cn, kv))


# (operation, kwargs-builder(cn, kv, sv, ns, f, n) -> dict of API keyword arguments, name of the argument carrying the target namespace)
def _ops():
    return [
        ('GetInstance', lambda cn, kv, sv, ns, f, n: dict(InstanceName=path(cn, kv, ns, 'hh' if n == 3 else None), LocalOnly=f, IncludeQualifiers=f, IncludeClassOrigin=None, PropertyList=pl(n, sv, kv)), 'InstanceName'),
        ('DeleteInstance', lambda cn, kv, sv, ns, f, n: dict(InstanceName=path(cn, kv, ns)), 'InstanceName'),
        ('EnumerateInstances', lambda cn, kv, sv, ns, f, n: dict(ClassName=cn, namespace=ns, LocalOnly=None, DeepInheritance=f, IncludeQualifiers=f, PropertyList=pl(n, sv, kv)), 'namespace'),
        ('EnumerateInstanceNames', lambda cn, kv, sv, ns, f, n: dict(ClassName=CIMClassName(cn, namespace=ns)), 'ClassName'),
        ('CreateInstance', lambda cn, kv, sv, ns, f, n: dict(NewInstance=inst(cn, kv, sv), namespace=ns), 'namespace'),
        ('ModifyInstance', lambda cn, kv, sv, ns, f, n: dict(ModifiedInstance=_with_ns(inst(cn, kv, sv), ns), IncludeQualifiers=f, PropertyList=pl(n, sv, kv)), 'ModifiedInstance'),
        ('Associators', lambda cn, kv, sv, ns, f, n: dict(ObjectName=path(cn, kv, ns, 'hh' if n == 3 else None), AssocClass=sv or None, ResultClass=None, Role=kv or None, ResultRole=None, IncludeQualifiers=f, PropertyList=pl(n, sv, kv)), 'ObjectName'),
        ('AssociatorNames', lambda cn, kv, sv, ns, f, n: dict(ObjectName=CIMClassName(cn, namespace=ns) if f else path(cn, kv, ns), ResultClass=sv or None), 'ObjectName'),
        ('References', lambda cn, kv, sv, ns, f, n: dict(ObjectName=path(cn, kv, ns), ResultClass=sv or None, Role=None, IncludeClassOrigin=f), 'ObjectName'),
        ('ReferenceNames', lambda cn, kv, sv, ns, f, n: dict(ObjectName=path(cn, kv, ns), Role=sv or None), 'ObjectName'),
        ('GetClass', lambda cn, kv, sv, ns, f, n: dict(ClassName=cn, namespace=ns, LocalOnly=f, IncludeQualifiers=None, IncludeClassOrigin=f, PropertyList=pl(n, sv, kv)), 'namespace'),
        ('EnumerateClasses', lambda cn, kv, sv, ns, f, n: dict(namespace=ns, ClassName=cn if f else None, DeepInheritance=f, LocalOnly=None), 'namespace'),
        ('EnumerateClassNames', lambda cn, kv, sv, ns, f, n: dict(namespace=ns, ClassName=cn if f is not None else None, DeepInheritance=f), 'namespace'),
        ('DeleteClass', lambda cn, kv, sv, ns, f, n: dict(ClassName=CIMClassName(cn, namespace=ns)), 'ClassName'),
        ('CreateClass', lambda cn, kv, sv, ns, f, n: dict(NewClass=CIMClass(cn, superclass=sv or None, properties=[CIMProperty('p', None, type='string')]), namespace=ns), 'namespace'),
        ('GetQualifier', lambda cn, kv, sv, ns, f, n: dict(QualifierName=cn, namespace=ns), 'namespace'),
        ('SetQualifier', lambda cn, kv, sv, ns, f, n: dict(QualifierDeclaration=CIMQualifierDeclaration(cn, 'string', value=sv, scopes={'CLASS': True}, overridable=f), namespace=ns), 'namespace'),
        ('EnumerateQualifiers', lambda cn, kv, sv, ns, f, n: dict(namespace=ns), 'namespace'),
        ('ExecQuery', lambda cn, kv, sv, ns, f, n: dict(QueryLanguage=kv, Query=sv, namespace=ns), 'namespace'),
        ('OpenEnumerateInstances', lambda cn, kv, sv, ns, f, n: dict(ClassName=cn, namespace=ns, DeepInheritance=f, FilterQueryLanguage=sv or None, FilterQuery=kv or None, OperationTimeout=n, ContinueOnError=f, MaxObjectCount=n, PropertyList=pl(n, sv, kv)), 'namespace'),
        ('OpenAssociatorInstancePaths', lambda cn, kv, sv, ns, f, n: dict(InstanceName=path(cn, kv, ns), AssocClass=sv or None, MaxObjectCount=n), 'InstanceName'),
        ('PullInstancesWithPath', lambda cn, kv, sv, ns, f, n: dict(context=(kv, ns or 'x/y'), MaxObjectCount=n), None),
        ('CloseEnumeration', lambda cn, kv, sv, ns, f, n: dict(context=(kv, ns or 'x/y')), None),
        ('InvokeMethod', lambda cn, kv, sv, ns, f, n: dict(MethodName=sv or 'M', ObjectName=CIMClassName(cn, namespace=ns, host='hh' if n % 2 else None) if f else path(cn, kv, ns, 'hh' if n % 2 else None),
                                                           Params=[('p1', kv), ('p2', Uint8(n)), ('p3', [True, False]), ('p4', path(cn, kv)), ('p5', None),
                                                                   ('p6', [EMB, EMB2]), ('p7', [Uint8(n), None])], Extra=f), 'ObjectName'),
    ]


# embedded objects are concrete: their XML text is produced by the real minidom writer (forks per character on symbolic strings)
EMB = CIMInstance('Emb', properties=[CIMProperty('x', 'y<&>]]>'), CIMProperty('n', Uint8(7))])
EMB2 = CIMInstance('Emb2')
OPS = _ops()


def pl(n, sv, kv):
    if n == 0:
        return None
    if n == 1:
        return [sv]
    if n == 2:
        return [sv, kv]
    return sv


def _with_ns(i, ns):
    i.path.namespace = ns
    return i


def text_of(v):
    """CIM-XML text of a simple IPARAMVALUE value as the server reads it."""
    if isinstance(v, bool):
        return 'TRUE' if v else 'FALSE'
    return str(v)


def same_param(name, supplied, seen):
    """Is `seen` (value decoded by the server-side parser) the value the caller supplied?"""
    if isinstance(supplied, bool):
        if isinstance(seen, bool):          # the server-side parser already types the four standard flags
            return seen == supplied
        return isinstance(seen, str) and seen.upper() == text_of(supplied)
    if isinstance(supplied, int):
        return isinstance(seen, str) and seen == str(supplied)
    if isinstance(supplied, str):
        if name in ('ClassName', 'ResultClass', 'AssocClass'):
            return isinstance(seen, CIMClassName) and seen.classname == supplied and seen.namespace is None and seen.host is None
        return seen == supplied
    if isinstance(supplied, CIMClassName):
        return isinstance(seen, CIMClassName) and seen.classname == supplied.classname and seen.namespace is None and seen.host is None
    if isinstance(supplied, CIMInstanceName):
        if not isinstance(seen, CIMInstanceName) or seen.namespace is not None or seen.host is not None:
            return False
        return seen.classname == supplied.classname and cimcmp.same_list(
            supplied.keybindings.items(), seen.keybindings.items(),
            lambda a, b, w: (None if a[0] == b[0] else 'kn') or cimcmp.same_value(a[1], b[1], w), 'kb') is None
    if isinstance(supplied, (list, tuple)):
        if not isinstance(seen, list) or len(seen) != len(supplied):
            return False
        return all(same_param(name, a, b) for a, b in zip(supplied, seen))
    if isinstance(supplied, CIMInstance):
        if not isinstance(seen, CIMInstance):
            return False
        a = supplied.copy()
        a.path = None
        b = seen.copy()
        b.path = None
        return cimcmp.same_instance(a, b) is None
    if isinstance(supplied, CIMClass):
        return isinstance(seen, CIMClass) and cimcmp.same_class(supplied, seen) is None
    if isinstance(supplied, CIMQualifierDeclaration):
        return isinstance(seen, CIMQualifierDeclaration) and cimcmp.same_qualdecl(supplied, seen) is None
    return False


def facts_of(dom):
    return c01.dom_facts(dom, {'attr_ws': False, 'text_cr': False})


def _seen_by_server(op: int, cn: str, kv: str, sv: str, ns: Optional[str], flag: Optional[bool], n: int, dns: int):
    opname, mk, nsarg = OPS[op]
    kwargs = mk(cn, kv, sv, ns, flag, n)
    conn = CONNS[dns]
    cap = capture(lambda c: getattr(c, opname)(**kwargs), conn)
    if cap[0] == 'local-error':
        e = cap[1]
        if 'is not safe' in str(e) or 'tzinfo' in str(e):
            return 'ENGINE-ARTEFACT: ' + str(e)[:100]
        if isinstance(e, (TypeError, ValueError)):
            TAGS.append('local')
            return None               # argument rejected locally (documented)
        return '%s: %s escaped before sending' % (opname, type(e).__name__)
    if cap[0] != 'sent':
        return '%s: no request sent' % opname
    f = facts_of(cap[1])
    if kf.skip('c01_roundtrip:rt', **f):
        return None                   # XML text-layer findings of C01 (TAB/CR/LF normalisation)
    try:
        tt = request_tt(cap)
    except IllFormed:
        return None                   # C03's subject
    try:
        kind, name, seen_ns, localobj, params = server_decode(tt)
    except Error as e:
        return '%s: the server-side parser rejects the request (%s)' % (opname, type(e).__name__)
    TAGS.append('decoded')
    api_name = opname if opname != 'InvokeMethod' else kwargs['MethodName']
    if name != api_name:
        return '%s: server sees operation %r' % (opname, name)
    # effective namespace
    want_ns = ns if (nsarg is not None and ns is not None) else DEFNS[dns]
    want_ns = want_ns.strip('/')
    if opname in ('PullInstancesWithPath', 'CloseEnumeration'):
        want_ns = ns or 'x/y'         # the namespace of the context tuple is used verbatim
    if kind == 'intrinsic':
        if seen_ns != want_ns:
            return '%s: server sees namespace %r instead of %r' % (opname, seen_ns, want_ns)
        supplied = dict((k, v) for k, v in kwargs.items() if k != 'namespace' and v is not None)
        if 'context' in supplied:
            supplied['EnumerationContext'] = supplied.pop('context')[0]
        if opname == 'ModifyInstance':
            pass                      # ModifiedInstance travels as VALUE.NAMEDINSTANCE: checked via the instance below
        if opname in ('EnumerateClasses', 'EnumerateClassNames') and 'ClassName' in supplied and isinstance(supplied['ClassName'], str):
            pass
        seen = {}
        for pn, pv in params:
            if pn in seen:
                return '%s: parameter %s sent twice' % (opname, pn)
            seen[pn] = pv
        for k in supplied:
            if k not in seen:
                return '%s: parameter %s was supplied but the server does not see it' % (opname, k)
        for k in seen:
            if k not in supplied:
                return '%s: server sees parameter %s that was not supplied (None must be omitted)' % (opname, k)
        for k, v in supplied.items():
            sv_ = seen[k]
            if k == 'PropertyList' and isinstance(v, str):
                v = [v]
            if k == 'ModifiedInstance':
                if not isinstance(sv_, CIMInstance) or not same_param(k, v, sv_):
                    return '%s: ModifiedInstance differs at the server' % opname
                if sv_.path is None or not same_param('InstanceName', v.path, _strip(sv_.path)):
                    return '%s: ModifiedInstance path differs at the server' % opname
                continue
            if not same_param(k, v, sv_):
                return '%s: server sees a different value for parameter %s' % (opname, k)
        return None
    # extrinsic
    tgt = kwargs['ObjectName']
    if localobj.namespace != want_ns:
        return 'InvokeMethod: server sees target namespace %r instead of %r' % (localobj.namespace, want_ns)
    if localobj.host is not None:
        return 'InvokeMethod: server sees a host in the local path'
    if type(localobj) is not type(tgt) or localobj.classname != tgt.classname:
        return 'InvokeMethod: server sees a different target object'
    if isinstance(tgt, CIMInstanceName) and not same_param('InstanceName', tgt, _strip(localobj)):
        return 'InvokeMethod: server sees different target keybindings'
    supplied = [(k, v) for k, v in kwargs['Params']] + [(k, v) for k, v in kwargs.items() if k not in ('MethodName', 'ObjectName', 'Params')]
    seen = dict((p[0], p) for p in params)
    if len(seen) != len(params):
        return 'InvokeMethod: a parameter was sent twice'
    for k, v in supplied:
        if k not in seen:
            return 'InvokeMethod: parameter %s was supplied but the server does not see it' % k
        pname, ptype, pval = seen[k]
        if v is None:
            if pval is not None:
                return 'InvokeMethod: NULL parameter %s arrives with a value' % k
            continue
        exp_type = pywbem.cimtype(v[0] if isinstance(v, list) and v else v) if not isinstance(v, (CIMInstance, CIMClass)) and not (isinstance(v, list) and v and isinstance(v[0], (CIMInstance, CIMClass))) else 'string'
        if ptype != exp_type:
            return 'InvokeMethod: parameter %s arrives with PARAMTYPE %r instead of %r' % (k, ptype, exp_type)
        got = pval
        if exp_type not in ('reference',) and not isinstance(v, (CIMInstance, CIMClass)) and not (isinstance(v, list) and v and isinstance(v[0], (CIMInstance, CIMClass))):
            tp = pywbem._tupleparse.TupleParser()
            got = [tp.unpack_single_value(x, ptype) for x in pval] if isinstance(pval, list) else tp.unpack_single_value(pval, ptype)
        r = cimcmp.same_value(_strip(v) if isinstance(v, CIMInstanceName) else v, got, k)
        if r and isinstance(v, list) and v and isinstance(v[0], CIMInstance):
            r = cimcmp.same_list([_nopath(x) for x in v], got, lambda a, b, w: cimcmp.same_value(a, b, w), k) if isinstance(got, list) else r
        elif r and isinstance(v, CIMInstance):
            r = cimcmp.same_value(_nopath(v), got, k)
        if r:
            return 'InvokeMethod: parameter %s arrives changed (%s)' % (k, r)
    if len(seen) != len(supplied):
        return 'InvokeMethod: server sees parameters that were not supplied'
    return None


def _strip(p):
    q = p.copy()
    q.namespace = None
    q.host = None
    return q


def _nopath(i):
    j = i.copy()
    j.path = None
    return j


def seen_by_server(op: int, cn: str, kv: str, sv: str, ns: Optional[str], flag: Optional[bool], n: int, dns: int) -> Optional[str]:
    """
    pre: 0 <= op < len(OPS) and op % NPARTS == PART
    pre: 1 <= len(cn) <= SMAX and len(kv) <= SMAX and len(sv) <= SMAX
    pre: ns is None or 1 <= len(ns) <= 3
    pre: 0 <= n <= 3 and 0 <= dns <= 1
    post: _ is None
    """
    return _seen_by_server(op, cn, kv, sv, ns, flag, n, dns)


def seen_by_server_reach(op: int, cn: str, kv: str, sv: str, ns: Optional[str], flag: Optional[bool], n: int, dns: int) -> bool:
    """
    pre: 0 <= op < len(OPS) and op % NPARTS == PART
    pre: 1 <= len(cn) <= SMAX and len(kv) <= SMAX and len(sv) <= SMAX
    pre: ns is None or 1 <= len(ns) <= 3
    pre: 0 <= n <= 3 and 0 <= dns <= 1
    post: _
    """
    del TAGS[:]
    r = _seen_by_server(op, cn, kv, sv, ns, flag, n, dns)
    return not (r is None and 'decoded' in TAGS)


# ------------------------------------------------------------------ H2: InvokeMethod reply direction
_REPLY = [None]
_orig_sax = ops.xml_to_tupletree_sax


def _reply_stub(data, meaning, conn_id=None):
    return _REPLY[0]


def _call_with_reply(conn, tt, call):
    """Run `call` on a real WBEMConnection whose transport returns the reply tuple tree tt."""
    saved_req, saved_sax = ops.wbem_request, ops.xml_to_tupletree_sax
    ops.wbem_request = lambda c, data, headers: (b'<reply/>', 0.0)
    ops.xml_to_tupletree_sax = _reply_stub
    _REPLY[0] = tt
    try:
        return call(conn)
    finally:
        ops.wbem_request, ops.xml_to_tupletree_sax = saved_req, saved_sax


def reply_envelope(kids, methodname, extrinsic):
    rsp = cx.METHODRESPONSE(methodname, kids) if extrinsic else cx.IMETHODRESPONSE(methodname, kids)
    return cx.CIM(cx.MESSAGE(cx.SIMPLERSP(rsp), '1001', '1.0'), '2.0', '2.0')


OUTVALS = [True, False, Uint8(0), 'x', None, [True, False], [False], [Uint8(1), None], [], Real64(1.5),
           CIMInstanceName('T', {'k': 1}, namespace='n'), [CIMInstanceName('T', {'k': 1})],
           CIMInstance('Emb', properties={'p': 'v'}), [CIMInstance('Emb', properties={'p': 'v'}), CIMInstance('Emb2')],
           [CIMInstance('Emb'), None], CIMDateTime('20140924193040.654321+120'), ['a', None, ''], '']
OUTTYPES = ['boolean', 'boolean', 'uint8', 'string', 'uint32', 'boolean', 'boolean', 'uint8', 'string', 'real64', 'reference', 'reference',
            'string', 'string', 'string', 'datetime', 'string', 'string']
RVALS = [(True, 'boolean'), (False, 'boolean'), (Uint32(0), 'uint32'), ('s', 'string'), (None, None), ('', 'string')]


def _invoke_reply(rsel: int, o1: int, o2: int, name1: str, sval: str):
    if kf.skip('c04_facade:invoke_reply', rsel=rsel, o1=o1, o2=o2):
        return None
    rv, rtype = RVALS[rsel]
    outs = [(name1, OUTVALS[o1], OUTTYPES[o1])]
    if o2 != o1:
        outs.append(('Zz' + name1, OUTVALS[o2], OUTTYPES[o2]))
    if rtype == 'string' and rv == 's':
        rv = sval
    kids = []
    if rv is not None:
        kids.append(cx.RETURNVALUE(cx.VALUE(pywbem._cim_types.atomic_to_cim_xml(rv)), rtype))
    for n_, v, t in outs:
        eo = None
        vv = v[0] if isinstance(v, list) and v else v
        if isinstance(vv, CIMInstance):
            eo = 'instance'
        kids.append(CIMParameter(n_, t, value=v, is_array=isinstance(v, list), embedded_object=eo).tocimxml(as_value=True))
    dom = reply_envelope(kids, 'M', True)
    f = facts_of(dom)
    if kf.skip('c01_roundtrip:rt', **f):
        return None
    try:
        tt = dom2tt(dom) if not mode.REPLAY else wire_tt(dom)
    except IllFormed:
        return None
    try:
        got_rv, got_outs = _call_with_reply(CONNS[0], tt, lambda c: c.InvokeMethod('M', 'C'))
    except Error as e:
        return 'InvokeMethod: a well-formed reply is refused with %s' % type(e).__name__
    TAGS.append('replied')
    r = cimcmp.same_value(rv, got_rv, 'return value')
    if r:
        return 'InvokeMethod: %s' % r
    if len(got_outs) != len(outs):
        return 'InvokeMethod: number of output parameters differs'
    for n_, v, t in outs:
        if n_ not in got_outs:
            return 'InvokeMethod: output parameter lost'
        r = cimcmp.same_value(v, got_outs[n_], 'output parameter of type %s' % t)
        if r:
            return 'InvokeMethod: %s' % r
    return None


def wire_tt(dom):
    from pywbem._tupletree import xml_to_tupletree_sax
    try:
        return xml_to_tupletree_sax(wire._orig_toxml(dom), 'replay')
    except pywbem.XMLParseError as e:
        raise IllFormed(str(e))


def invoke_reply(rsel: int, o1: int, o2: int, name1: str, sval: str) -> Optional[str]:
    """
    pre: 0 <= rsel < len(RVALS) and 0 <= o1 < len(OUTVALS) and 0 <= o2 < len(OUTVALS) and o1 % NPARTS == PART
    pre: 1 <= len(name1) <= 2 and len(sval) <= 2
    post: _ is None
    """
    return _invoke_reply(rsel, o1, o2, name1, sval)


def invoke_reply_reach(rsel: int, o1: int, o2: int, name1: str, sval: str) -> bool:
    """
    pre: 0 <= rsel < len(RVALS) and 0 <= o1 < len(OUTVALS) and 0 <= o2 < len(OUTVALS)
    pre: 1 <= len(name1) <= 2 and len(sval) <= 2
    post: _
    """
    del TAGS[:]
    r = _invoke_reply(rsel, o1, o2, name1, sval)
    return not (r is None and 'replied' in TAGS and o1 != o2)


# ------------------------------------------------------------------ H1b: InvokeMethod target as seen by the server (focused)
def _invoke_seen(tk: int, cn: str, kv: str, ns: Optional[str], host: Optional[str], dns: int, mname: str):
    if tk == 0:
        target = cn
    elif tk == 1:
        target = CIMClassName(cn, namespace=ns, host=host)
    else:
        target = CIMInstanceName(cn, keybindings=[('k', kv)], namespace=ns, host=host)
    cap = capture(lambda c: c.InvokeMethod(mname, target, Params=[('p', Uint8(1))]), CONNS[dns])
    if cap[0] == 'local-error':
        return None if isinstance(cap[1], (TypeError, ValueError)) else 'InvokeMethod: %s escaped before sending' % type(cap[1]).__name__
    if kf.skip('c01_roundtrip:rt', **facts_of(cap[1])):
        return None
    try:
        kind, name, seen_ns, localobj, params = server_decode(request_tt(cap))
    except IllFormed:
        return None
    except Error as e:
        return 'InvokeMethod: the server-side parser rejects the request (%s)' % type(e).__name__
    TAGS.append('decoded')
    want_ns = (ns if (tk != 0 and ns is not None) else DEFNS[dns]).strip('/')
    if name != mname:
        return 'InvokeMethod: server sees method %r' % name
    if localobj.namespace != want_ns or localobj.host is not None:
        return 'InvokeMethod: server sees target namespace/host %r/%r instead of %r/None' % (localobj.namespace, localobj.host, want_ns)
    if localobj.classname != cn:
        return 'InvokeMethod: server sees a different target class'
    if tk == 2 and (not isinstance(localobj, CIMInstanceName) or list(localobj.keybindings.items()) != [('k', kv)]):
        return 'InvokeMethod: server sees different keybindings'
    if tk != 2 and not isinstance(localobj, CIMClassName):
        return 'InvokeMethod: class target arrives as instance path'
    return None


def invoke_seen(tk: int, cn: str, kv: str, ns: Optional[str], host: Optional[str], dns: int, mname: str) -> Optional[str]:
    """
    pre: 0 <= tk <= 2 and 1 <= len(cn) <= 2 and len(kv) <= 1 and 0 <= dns <= 1 and 1 <= len(mname) <= 2
    pre: ns is None or 1 <= len(ns) <= 3
    pre: host is None or 1 <= len(host) <= 2
    pre: (tk * 2 + dns) % NPARTS == PART
    post: _ is None
    """
    return _invoke_seen(tk, cn, kv, ns, host, dns, mname)


def invoke_seen_reach(tk: int, cn: str, kv: str, ns: Optional[str], host: Optional[str], dns: int, mname: str) -> bool:
    """
    pre: 0 <= tk <= 2 and 1 <= len(cn) <= 2 and len(kv) <= 1 and 0 <= dns <= 1 and 1 <= len(mname) <= 2
    pre: ns is None or 1 <= len(ns) <= 3
    pre: host is None or 1 <= len(host) <= 2
    post: _
    """
    del TAGS[:]
    r = _invoke_seen(tk, cn, kv, ns, host, dns, mname)
    return not (r is None and 'decoded' in TAGS and tk == 2)
