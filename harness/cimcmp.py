"""Attribute-by-attribute comparison of CIM objects, written from the property text (C01):
same names (exact strings), CIM types (type identity of values), values incl. NULLs and
NULL array entries, child order, path components; attributes left None read back as the
DSP0201 default.  Returns None if same, else a short string naming the first difference.
Does NOT use pywbem's __eq__ (that is C05's subject)."""
import pywbem
from pywbem import (CIMInstanceName, CIMClassName, CIMInstance, CIMClass, CIMProperty, CIMMethod,
                    CIMParameter, CIMQualifier, CIMQualifierDeclaration, CIMDateTime)


def dflt(v, d):
    return d if v is None else v


def same_value(a, b, where='value'):
    if a is None or b is None:
        return None if (a is None and b is None) else where + ': None vs not None'
    if isinstance(a, (list, tuple)):
        if not isinstance(b, (list, tuple)):
            return where + ': array vs scalar'
        if len(a) != len(b):
            return where + ': array length'
        for i in range(len(a)):
            r = same_value(a[i], b[i], where + '[%d]' % i)
            if r:
                return r
        return None
    if type(a) is not type(b):
        return where + ': python type %s vs %s' % (type(a).__name__, type(b).__name__)
    if isinstance(a, CIMInstanceName):
        return same_instancename(a, b, where)
    if isinstance(a, CIMClassName):
        return same_classname(a, b, where)
    if isinstance(a, CIMInstance):
        return same_instance(a, b, where)
    if isinstance(a, CIMClass):
        return same_class(a, b, where)
    if isinstance(a, CIMDateTime):
        if str(a) != str(b):
            return where + ': datetime text'
        return None
    if isinstance(a, float):
        if a != a:
            return None if b != b else where + ': NaN lost'
        if a != b:
            return where + ': float differs'
        return None
    if a != b:
        return where + ': differs'
    return None


def same_str(a, b, where):
    if a is None or b is None:
        return None if (a is None and b is None) else where + ': None vs str'
    return None if a == b else where + ': differs'


def same_list(la, lb, fn, where):
    la = list(la)
    lb = list(lb)
    if len(la) != len(lb):
        return where + ': count %d vs %d' % (len(la), len(lb))
    for i in range(len(la)):
        r = fn(la[i], lb[i], '%s[%d]' % (where, i))
        if r:
            return r
    return None


def same_qualifier(a, b, where='qualifier'):
    return (same_str(a.name, b.name, where + '.name') or same_str(a.type, b.type, where + '.type')
            or same_value(a.value, b.value, where + '.value')
            or _eqd(dflt(a.propagated, False), b.propagated, where + '.propagated')
            or _eqd(dflt(a.overridable, True), b.overridable, where + '.overridable')
            or _eqd(dflt(a.tosubclass, True), b.tosubclass, where + '.tosubclass')
            or _eqd(dflt(a.toinstance, False), b.toinstance, where + '.toinstance')
            or _eqd(dflt(a.translatable, False), b.translatable, where + '.translatable'))


def _eqd(a, b, where):
    if a is None or b is None:
        return None if a is b else where + ': None vs value'
    return None if (a == b and type(a) is type(b)) else where + ': differs'


def same_qualifiers(qa, qb, where):
    return same_list(qa.values(), qb.values(), same_qualifier, where + '.qualifiers')


def same_property(a, b, where='property'):
    return (same_str(a.name, b.name, where + '.name') or same_str(a.type, b.type, where + '.type')
            or _eqd(a.is_array, b.is_array, where + '.is_array')
            or same_value(a.value, b.value, where + '.value')
            or _eqd(a.array_size, b.array_size, where + '.array_size')
            or same_str(a.reference_class, b.reference_class, where + '.reference_class')
            or same_str(a.class_origin, b.class_origin, where + '.class_origin')
            or _eqd(dflt(a.propagated, False), b.propagated, where + '.propagated')
            or same_str(a.embedded_object, b.embedded_object, where + '.embedded_object')
            or same_qualifiers(a.qualifiers, b.qualifiers, where))


def same_parameter(a, b, where='parameter'):
    return (same_str(a.name, b.name, where + '.name') or same_str(a.type, b.type, where + '.type')
            or _eqd(dflt(a.is_array, False), dflt(b.is_array, False), where + '.is_array')
            or _eqd(a.array_size, b.array_size, where + '.array_size')
            or same_str(a.reference_class, b.reference_class, where + '.reference_class')
            or same_value(a.value, b.value, where + '.value')
            or same_str(a.embedded_object, b.embedded_object, where + '.embedded_object')
            or same_qualifiers(a.qualifiers, b.qualifiers, where))


def same_method(a, b, where='method'):
    return (same_str(a.name, b.name, where + '.name') or same_str(a.return_type, b.return_type, where + '.return_type')
            or same_str(a.class_origin, b.class_origin, where + '.class_origin')
            or _eqd(dflt(a.propagated, False), b.propagated, where + '.propagated')
            or same_list(a.parameters.values(), b.parameters.values(), same_parameter, where + '.parameters')
            or same_qualifiers(a.qualifiers, b.qualifiers, where))


def same_instancename(a, b, where='instancename'):
    r = (same_str(a.classname, b.classname, where + '.classname') or same_str(a.host, b.host, where + '.host')
         or same_str(a.namespace, b.namespace, where + '.namespace'))
    if r:
        return r
    ka = list(a.keybindings.items())
    kb = list(b.keybindings.items())
    if len(ka) != len(kb):
        return where + '.keybindings: count'
    for i in range(len(ka)):
        r = same_str(ka[i][0], kb[i][0], where + '.key name') or same_value(ka[i][1], kb[i][1], where + '.key value')
        if r:
            return r
    return None


def same_classname(a, b, where='classname'):
    return (same_str(a.classname, b.classname, where + '.classname') or same_str(a.host, b.host, where + '.host')
            or same_str(a.namespace, b.namespace, where + '.namespace'))


def same_path(a, b, fn, where):
    if a is None or b is None:
        return None if a is b else where + '.path: None vs path'
    return fn(a, b, where + '.path')


def same_instance(a, b, where='instance'):
    return (same_str(a.classname, b.classname, where + '.classname')
            or same_list(a.properties.values(), b.properties.values(), same_property, where + '.properties')
            or same_qualifiers(a.qualifiers, b.qualifiers, where)
            or same_path(a.path, b.path, same_instancename, where))


def same_class(a, b, where='class'):
    return (same_str(a.classname, b.classname, where + '.classname') or same_str(a.superclass, b.superclass, where + '.superclass')
            or same_list(a.properties.values(), b.properties.values(), same_property, where + '.properties')
            or same_list(a.methods.values(), b.methods.values(), same_method, where + '.methods')
            or same_qualifiers(a.qualifiers, b.qualifiers, where)
            or same_path(a.path, b.path, same_classname, where))


def same_qualdecl(a, b, where='qualdecl'):
    r = (same_str(a.name, b.name, where + '.name') or same_str(a.type, b.type, where + '.type')
         or _eqd(dflt(a.is_array, False), b.is_array, where + '.is_array')
         or _eqd(a.array_size, b.array_size, where + '.array_size')
         or same_value(a.value, b.value, where + '.value')
         or _eqd(dflt(a.overridable, True), b.overridable, where + '.overridable')
         or _eqd(dflt(a.tosubclass, True), b.tosubclass, where + '.tosubclass')
         or _eqd(dflt(a.toinstance, False), b.toinstance, where + '.toinstance')
         or _eqd(dflt(a.translatable, False), b.translatable, where + '.translatable'))
    if r:
        return r
    for s in ('CLASS', 'ASSOCIATION', 'INDICATION', 'PROPERTY', 'REFERENCE', 'METHOD', 'PARAMETER', 'ANY'):
        # CIM-XML has no ANY attribute: ANY is transmitted as all seven scopes
        ea = bool(a.scopes.get('ANY', False)) or bool(a.scopes.get(s, False))
        eb = bool(b.scopes.get('ANY', False)) or bool(b.scopes.get(s, False))
        if s != 'ANY' and ea != eb:
            return where + '.scopes[%s]' % s
    return None


def same_obj(a, b):
    if type(a) is not type(b):
        return 'kind: %s vs %s' % (type(a).__name__, type(b).__name__)
    for cls, fn in ((CIMProperty, same_property), (CIMQualifier, same_qualifier), (CIMParameter, same_parameter),
                    (CIMMethod, same_method), (CIMInstanceName, same_instancename), (CIMClassName, same_classname),
                    (CIMInstance, same_instance), (CIMClass, same_class), (CIMQualifierDeclaration, same_qualdecl)):
        if isinstance(a, cls):
            return fn(a, b)
    return same_value(a, b)


def same_dom(a, b, where='dom'):
    """Structural identity of two minidom trees (stands for 'byte-identical XML')."""
    if a.nodeType != b.nodeType:
        return where + ': node type'
    if a.nodeType != a.ELEMENT_NODE:
        return None if a.data == b.data else where + ': text'
    if a.tagName != b.tagName:
        return where + ': tag'
    ka = sorted(a.attributes.keys())
    kb = sorted(b.attributes.keys())
    if ka != kb:
        return where + '<%s>: attribute set' % a.tagName
    for k in ka:
        if a.attributes[k].value != b.attributes[k].value:
            return where + '<%s>: attribute %s' % (a.tagName, k)
    ca = [c for c in a.childNodes if not (c.nodeType != c.ELEMENT_NODE and c.data == '')]
    cb = [c for c in b.childNodes if not (c.nodeType != c.ELEMENT_NODE and c.data == '')]
    if len(ca) != len(cb):
        return where + '<%s>: child count' % a.tagName
    for i in range(len(ca)):
        r = same_dom(ca[i], cb[i], where + '/' + a.tagName)
        if r:
            return r
    return None
