"""C20-H4 (E1): Values/ValueMap size reconciliation through the public ValueMapping.for_property."""
import warnings
warnings.simplefilter('ignore')
from typing import Optional
from verifpw import kf, mode
import pywbem
from pywbem import CIMClass, CIMProperty, CIMQualifier, ValueMapping, ModelError
import pywbem._valuemapping as vmod

vmod._format = lambda *a, **k: 'msg'
TAGS = []


class Conn:
    """Stub connection: for_property() only calls GetClass()."""
    def __init__(self, cls):
        self.cls = cls

    def GetClass(self, *a, **k):
        return self.cls


def _sizes(nv: int, nm: int, has_map: bool, has_default: bool, probe: int):
    if kf.skip('c20_sizes:sizes', nv=nv, nm=nm, has_map=has_map, has_default=has_default, probe=probe):
        return None
    values = []
    i = 0
    while i < nv:
        values.append('v%d' % i)
        i += 1
    vmap = []
    i = 0
    while i < nm:
        vmap.append(str(i))
        i += 1
    quals = [CIMQualifier('Values', values, type='string')]
    if has_map:
        quals.append(CIMQualifier('ValueMap', vmap, type='string'))
    cls = CIMClass('C', properties=[CIMProperty('P', None, type='uint8', qualifiers=quals)])
    default = 'dflt' if has_default else None
    try:
        vm = ValueMapping.for_property(Conn(cls), 'ns', 'C', 'P', values_default=default)
    except (ModelError, ValueError):
        eff_nm = nm if has_map else nv
        if has_default or eff_nm == nv:
            return 'size-compatible qualifier pair rejected'
        return None
    eff_nm = nm if has_map else nv
    if not has_default and eff_nm != nv:
        return 'size mismatch accepted without values_default'
    TAGS.append('built')
    if probe < eff_nm:
        want = values[probe] if probe < nv else default
        try:
            got = vm.tovalues(probe)
        except ValueError:
            return 'entry %d not claimed' % probe
        if got != want:
            return 'entry %d maps to %r instead of %r' % (probe, got, want)
    else:
        try:
            vm.tovalues(probe)
        except ValueError:
            return None
        return 'value beyond the ValueMap claimed'
    return None


def sizes(nv: int, nm: int, has_map: bool, has_default: bool, probe: int) -> Optional[str]:
    """
    pre: 0 <= nv <= 4 and 0 <= nm <= 4 and 0 <= probe <= 5
    post: _ is None
    """
    return _sizes(nv, nm, has_map, has_default, probe)


def sizes_reach(nv: int, nm: int, has_map: bool, has_default: bool, probe: int) -> bool:
    """
    pre: 0 <= nv <= 4 and 0 <= nm <= 4 and 0 <= probe <= 5
    post: _
    """
    del TAGS[:]
    r = _sizes(nv, nm, has_map, has_default, probe)
    return not (r is None and 'built' in TAGS and has_default and has_map and nv > nm)
