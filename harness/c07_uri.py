"""C07 harnesses (E1): WBEM URIs round-trip and canonical URIs respect path equality.

roundtrip(): an instance/class path is built from selectors (host forms, namespace depth, key
types incl. nested references to depth 3, awkward string key values) and, for each of the
formats, from_wbem_uri(p.to_wbem_uri(fmt)) must equal p (up to the documented untyped-URI
limits); a case-permuted / key-reordered twin must have the identical canonical URI while a
path that differs in a string key VALUE must not.
parse(): from_wbem_uri() on symbolic text returns a path or raises ValueError, nothing else.
"""
import warnings
warnings.simplefilter('ignore')
from typing import Optional
from verifpw import kf, mode
import pywbem
from pywbem import CIMInstanceName, CIMClassName, Uint8, Sint64, Real32, Real64, CIMDateTime
import pywbem._cim_obj as com

if not mode.REPLAY:
    com._format = lambda *a, **k: 'msg'
PART, NPARTS = mode.part()
TAGS = []
HOSTS = [None, 'Acme.Com', 'srv:5989', '[::1]:5989', '10.1.2.3', 'User@Host']
NAMESPACES = [None, 'root', 'Root/CimV2', 'a/b/c']
STRS = ['x', 'a\nb', 'Acme:Profile.1', 'q"uote', 'back\\slash', 'com,ma=eq', 'sp ace', 'UPPER lower', '', 'é\U00010000', 'a.b:c/d', "apo'strophe"]
# (kind, value): kinds that an untyped URI cannot carry exactly are normalised by `expect()`
KEYS = [('str', None), ('int', 0), ('int', -5), ('int', 18446744073709551615), ('uint8', Uint8(7)), ('bool', True), ('bool', False),
        ('real', 1.5), ('real', 1e+16), ('real', 3.402823466e+38), ('real', -2.5e-10), ('real', float('inf')), ('real', float('-inf')),
        ('real64', Real64(0.1)), ('char16', 'c')]


def mkpath(cls, ksel, ssel, host, ns, depth, flip, reorder):
    def c(s):
        return s.swapcase() if (flip and s is not None) else s
    kbs = []
    kind, val = KEYS[ksel]
    if kind == 'str':
        val = STRS[ssel]
    kbs.append((c('Key1'), val))
    kbs.append((c('Other'), 'Oth er'))
    if depth > 0:
        kbs.append((c('Ref'), mkpath('Inner', ksel, ssel, None, ns, depth - 1, flip, reorder)))
    if reorder:
        kbs.reverse()
    return CIMInstanceName(c(cls), keybindings=kbs, host=c(host), namespace=c(ns))


def expect(p):
    """What an untyped URI can carry: CIM integer/real types lose their width (documented)."""
    kbs = []
    for k, v in p.keybindings.items():
        if isinstance(v, CIMInstanceName):
            v = expect(v)
        elif isinstance(v, bool):
            pass
        elif isinstance(v, (pywbem.CIMInt,)):
            v = int(v)
        elif isinstance(v, (pywbem.CIMFloat,)):
            v = float(v)
        kbs.append((k, v))
    return CIMInstanceName(p.classname, keybindings=kbs, host=p.host, namespace=p.namespace)


def _roundtrip(ksel: int, ssel: int, hsel: int, nsel: int, depth: int, fmt: int, flip: bool, reorder: bool, cls: bool):
    kind = KEYS[ksel][0]
    if kf.skip('c07_uri:roundtrip', has_newline=(kind == 'str' and '\n' in STRS[ssel]), key_kind=kind, key_value=repr(KEYS[ksel][1]), string=STRS[ssel], host=HOSTS[hsel], ns=NAMESPACES[nsel], depth=depth,
               fmt=fmt, cls=cls, is_real=kind.startswith('real')):
        return None
    host, ns = HOSTS[hsel], NAMESPACES[nsel]
    if host is not None and ns is None:
        return None
    formats = ['standard', 'canonical', 'historical']
    f = formats[fmt]
    if cls:
        p = CIMClassName('Cim_Foo', host=host, namespace=ns)
        uri = p.to_wbem_uri(format=f)
        try:
            back = CIMClassName.from_wbem_uri(uri)
        except ValueError:
            return 'class path URI %r printed by pywbem is rejected by its own parser' % uri
        if back != p:
            return 'class path does not survive the %s URI %r' % (f, uri)
        q = CIMClassName('cIM_fOO', host=host.swapcase() if host else None, namespace=ns.swapcase() if ns else None)
        if q.to_wbem_uri('canonical') != p.to_wbem_uri('canonical'):
            return 'class paths differing only in case have different canonical URIs'
        TAGS.append('rt')
        return None
    p = mkpath('Cim_Foo', ksel, ssel, host, ns, depth, False, False)
    try:
        uri = p.to_wbem_uri(format=f)
    except (TypeError, ValueError):
        return None
    try:
        back = CIMInstanceName.from_wbem_uri(uri)
    except ValueError:
        return 'instance path URI %r printed by pywbem is rejected by its own parser' % uri
    want = expect(p)
    if back != want:
        return 'instance path does not survive the %s URI %r' % (f, uri)
    TAGS.append('rt')
    # canonical form: case of names/host/namespace and key order (also in nested references) do not matter
    twin = mkpath('Cim_Foo', ksel, ssel, host, ns, depth, flip, reorder)
    if twin == p and twin.to_wbem_uri('canonical') != p.to_wbem_uri('canonical'):
        return 'equal paths (case/order variants) have different canonical URIs'
    # ... but string key VALUES are case sensitive: a path that differs there must not share the canonical URI
    if kind == 'str' and STRS[ssel].swapcase() != STRS[ssel]:
        other = mkpath('Cim_Foo', ksel, ssel, host, ns, depth, False, False)
        _swap_value(other, depth)
        if other != p and other.to_wbem_uri('canonical') == p.to_wbem_uri('canonical'):
            return 'paths that differ in a string key value (depth %d) have the same canonical URI' % depth
    return None


def _swap_value(p, depth):
    """Swap the case of the string key value at the innermost reference level."""
    if depth > 0:
        _swap_value(p.keybindings['Ref'], depth - 1)
        return
    k = [k for k in p.keybindings.keys() if k.lower() == 'key1'][0]
    p.keybindings[k] = p.keybindings[k].swapcase()


def _run(*a):
    if mode.REPLAY:
        return _roundtrip(*a)
    from crosshair.tracers import NoTracing
    from selpick import pick_all
    b = pick_all(a)
    with NoTracing():
        return _roundtrip(*b)


def roundtrip(ksel: int, ssel: int, hsel: int, nsel: int, depth: int, fmt: int, flip: bool, reorder: bool, cls: bool) -> Optional[str]:
    """
    pre: 0 <= ksel < len(KEYS) and 0 <= ssel < len(STRS) and 0 <= hsel < len(HOSTS) and 0 <= nsel < len(NAMESPACES)
    pre: 0 <= depth <= DMAX and 0 <= fmt <= 2
    pre: ksel == 0 or ssel == 0
    pre: ksel % NPARTS == PART
    post: _ is None
    """
    return _run(ksel, ssel, hsel, nsel, depth, fmt, flip, reorder, cls)


DMAX = 2 if mode.tier() == 'quick' else 3


def roundtrip_reach(ksel: int, ssel: int, hsel: int, nsel: int, depth: int, fmt: int, flip: bool, reorder: bool, cls: bool) -> bool:
    """
    pre: 0 <= ksel < len(KEYS) and 0 <= ssel < len(STRS) and 0 <= hsel < len(HOSTS) and 0 <= nsel < len(NAMESPACES)
    pre: 0 <= depth <= DMAX and 0 <= fmt <= 2
    pre: ksel == 0 or ssel == 0
    pre: ksel % NPARTS == PART
    post: _
    """
    del TAGS[:]
    r = _run(ksel, ssel, hsel, nsel, depth, fmt, flip, reorder, cls)
    return not (r is None and 'rt' in TAGS)


# ------------------------------------------------------------------ parser totality (traced, symbolic text)
PREFIXES = ['', '/', '//h/', '/n:', 'http://h/n:', 'C.', '/n:C.k=', '/n:C.k="', '/n:C.k=1,j=', ':C.k=']
SUFFIXES = ['', '"', ',x=1', '.k=1']


def _parse(pre_: int, text: str, suf: int, cls: bool):
    s = PREFIXES[pre_] + text + SUFFIXES[suf]
    if kf.skip('c07_uri:parse', s=s):
        return None
    import re as _re
    try:
        if cls:
            CIMClassName.from_wbem_uri(s)
        else:
            CIMInstanceName.from_wbem_uri(s)
        TAGS.append('parsed')
    except ValueError:
        TAGS.append('rejected')
    except _re.error:
        if mode.REPLAY:
            raise
        TAGS.append('rejected')      # artefact of CrossHair's symbolic regex support (sub-pattern compilation); never seen natively
    return None


def parse(pre_: int, text: str, suf: int, cls: bool) -> Optional[str]:
    """
    pre: 0 <= pre_ < len(PREFIXES) and 0 <= suf < len(SUFFIXES) and len(text) <= TMAX
    pre: pre_ % NPARTS == PART
    post: _ is None
    """
    return _parse(pre_, text, suf, cls)


TMAX = 2 if mode.tier() == 'quick' else 4


def parse_reach(pre_: int, text: str, suf: int, cls: bool) -> bool:
    """
    pre: 0 <= pre_ < len(PREFIXES) and 0 <= suf < len(SUFFIXES) and len(text) <= TMAX
    pre: pre_ % NPARTS == PART
    post: _
    """
    del TAGS[:]
    _parse(pre_, text, suf, cls)
    return not ('parsed' in TAGS or 'rejected' in TAGS)
