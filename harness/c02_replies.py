"""C02 harnesses (E1): bad server responses surface only as pywbem.Error subclasses.

H1 parse_tree:  TupleParser.parse_any on tuple trees generated from the DTD vocabulary
                (read from /repo/tests/dtd at run time) with symbolic attribute/text strings
                and symbolic structure selectors.  Only pywbem.Error may escape.
H3 op_reply:    public WBEMConnection operations with the HTTP transport and expat replaced
                by a stub returning a symbolic reply tuple tree.
H5 http_reply:  wbem_request() status/header checks with a stub requests.Response whose
                status code / reason / headers are symbolic.
"""
import warnings
warnings.simplefilter('ignore')
from typing import Optional
from verifpw import kf, mode, dtd
import pywbem
from pywbem import Error, WBEMConnection, CIMInstanceName, CIMClassName, CIMInstance, CIMClass
from pywbem._tupleparse import TupleParser
import pywbem._tupleparse as tpm
import pywbem._cim_obj as com
import pywbem._cim_operations as ops
import pywbem._cim_http as httpm
import pywbem._cim_types as ctm

if not mode.REPLAY:
    for _m in (tpm, com, ops, httpm, ctm):
        _m._format = lambda *a, **k: 'msg'      # stub: error message formatting
    tpm._stacklevel_above_module = lambda m: 2
    # CIMDateTime cannot be constructed under the tracer (tzinfo subclass): run untraced
    from crosshair.tracers import NoTracing as _NoTracing
    from crosshair.core import deep_realize as _deep_realize
    _RealDT = tpm.CIMDateTime

    class _DTProxy:
        def __new__(cls, *a, **k):
            with _NoTracing():
                return _RealDT(*_deep_realize(a), **_deep_realize(k))
    tpm.CIMDateTime = _DTProxy

PART, NPARTS = mode.part()
TAGS = []
E = dtd.elems()
# roots that can appear inside a server response (everything below SIMPLERSP, plus object elements)
ROOTS = ['VALUE', 'VALUE.ARRAY', 'VALUE.REFERENCE', 'VALUE.REFARRAY', 'VALUE.OBJECT', 'VALUE.NAMEDINSTANCE',
         'VALUE.NAMEDOBJECT', 'VALUE.OBJECTWITHPATH', 'VALUE.OBJECTWITHLOCALPATH', 'VALUE.INSTANCEWITHPATH', 'VALUE.NULL',
         'NAMESPACEPATH', 'LOCALNAMESPACEPATH', 'HOST', 'NAMESPACE', 'CLASSPATH', 'LOCALCLASSPATH', 'CLASSNAME',
         'INSTANCEPATH', 'LOCALINSTANCEPATH', 'INSTANCENAME', 'OBJECTPATH', 'KEYBINDING', 'KEYVALUE',
         'CLASS', 'INSTANCE', 'QUALIFIER', 'PROPERTY', 'PROPERTY.ARRAY', 'PROPERTY.REFERENCE', 'METHOD',
         'PARAMETER', 'PARAMETER.REFERENCE', 'PARAMETER.ARRAY', 'PARAMETER.REFARRAY',
         'QUALIFIER.DECLARATION', 'SCOPE', 'ERROR', 'RETURNVALUE', 'IRETURNVALUE', 'PARAMVALUE',
         'METHODRESPONSE', 'IMETHODRESPONSE', 'SIMPLERSP', 'MESSAGE', 'CIM']
ROOTS = [r for r in ROOTS if r in E]
CDATA_POOL = {
    'TYPE': ['string', 'uint8', 'boolean', 'datetime', 'real32', 'char16', 'sint64', 'reference'],
    'PARAMTYPE': ['string', 'uint8', 'boolean', 'reference', 'instance', 'datetime'],
    'VALUETYPE': ['string', 'boolean', 'numeric'],
    'ARRAYSIZE': ['3', ''],
    'CODE': ['1', '6', ''],
    'CIMVERSION': ['2.0'], 'DTDVERSION': ['2.0'], 'PROTOCOLVERSION': ['1.0'], 'ID': ['1'],
    'EmbeddedObject': ['instance', 'object', ''], 'EMBEDDEDOBJECT': ['instance', 'object', ''],
}
TEXT_POOL = ['1', 'true', 'INF', '20140924193040.654321+120', '', 'x', '-1', '0x1F', '1.5', ' 7 ']
# attributes pywbem tolerates beyond the DTD (upper-case variant), to reach their code
EXTRA_ATTRS = {'PROPERTY': ['EMBEDDEDOBJECT'], 'PROPERTY.ARRAY': ['EMBEDDEDOBJECT'], 'PARAMVALUE': ['EMBEDDEDOBJECT', 'TYPE'],
               'RETURNVALUE': ['EMBEDDEDOBJECT']}


class Stream:
    """Consumes symbolic selector ints in order; wraps around."""
    def __init__(self, ks):
        self.ks = ks
        self.i = 0

    def pick(self, n):
        k = self.ks[self.i % len(self.ks)]
        self.i += 1
        # realise the choice by comparison (forks n ways)
        j = 0
        while j < n - 1:
            if k == j:
                return j
            j += 1
        return n - 1


def gen(name, depth, st, strs):
    e = E[name]
    attrs = {}
    names = list(e.attrs.keys()) + EXTRA_ATTRS.get(name, [])
    for a in names:
        if a == 'xml:lang':
            continue
        c = st.pick(3)
        if c == 0:
            continue                                  # absent
        typ = e.attrs.get(a, ('CDATA', None))[0]
        pool = list(typ) if isinstance(typ, list) else CDATA_POOL.get(a, ['N'])
        if c == 1:
            attrs[a] = pool[st.pick(len(pool))]          # literal from the pool
        else:
            attrs[a] = strs[st.pick(len(strs))]          # symbolic string
    kids = []
    if e.pcdata:
        c = st.pick(3)
        if c == 1:
            kids.append(TEXT_POOL[st.pick(len(TEXT_POOL))])
        elif c == 2:
            kids.append(strs[st.pick(len(strs))])
    elif e.children and depth > 0:
        n = st.pick(3)
        for _i in range(n):
            ch = e.children[st.pick(len(e.children))]
            kids.append(gen(ch, depth - 1, st, strs))
    elif e.children:
        # depth exhausted: a minimal leaf child keeps required-children checks reachable
        pass
    return (name, attrs, kids)


def _parse_tree(root: int, k0: int, k1: int, k2: int, k3: int, k4: int, k5: int, k6: int, k7: int, s0: str, s1: str):
    if kf.skip('c02_replies:parse_tree', root=root, s0=s0, s1=s1):
        return None
    st = Stream([k0, k1, k2, k3, k4, k5, k6, k7])
    tt = gen(ROOTS[root], DEPTH, st, [s0, s1])
    try:
        TupleParser().parse_any(tt)
    except Error:
        TAGS.append('err')
        return None
    TAGS.append('ok')
    return None


DEPTH = 2 if mode.tier() == 'quick' else 3
SMAX = 2 if mode.tier() == 'quick' else 4


def parse_tree(root: int, k0: int, k1: int, k2: int, k3: int, k4: int, k5: int, k6: int, k7: int, s0: str, s1: str) -> None:
    """
    pre: 0 <= root < len(ROOTS) and root % NPARTS == PART
    pre: 0 <= k0 <= 9 and 0 <= k1 <= 9 and 0 <= k2 <= 9 and 0 <= k3 <= 9 and 0 <= k4 <= 9 and 0 <= k5 <= 9 and 0 <= k6 <= 9 and 0 <= k7 <= 9
    pre: len(s0) <= SMAX and len(s1) <= SMAX
    post: True
    """
    return _parse_tree(root, k0, k1, k2, k3, k4, k5, k6, k7, s0, s1)


def parse_tree_reach(root: int, k0: int, k1: int, k2: int, k3: int, k4: int, k5: int, k6: int, k7: int, s0: str, s1: str) -> bool:
    """
    pre: 0 <= root < len(ROOTS)
    pre: 0 <= k0 <= 9 and 0 <= k1 <= 9 and 0 <= k2 <= 9 and 0 <= k3 <= 9 and 0 <= k4 <= 9 and 0 <= k5 <= 9 and 0 <= k6 <= 9 and 0 <= k7 <= 9
    pre: len(s0) <= SMAX and len(s1) <= SMAX
    post: _
    """
    del TAGS[:]
    _parse_tree(root, k0, k1, k2, k3, k4, k5, k6, k7, s0, s1)
    return not ('ok' in TAGS and ROOTS[root] in ('PROPERTY', 'INSTANCE', 'PROPERTY.ARRAY'))


# ------------------------------------------------------------------ H5: HTTP status / headers
class _Raw:
    version = 11


class _Resp:
    def __init__(self, status, reason, headers, body):
        self.status_code = status
        self.reason = reason
        self.headers = headers
        self.content = body
        self.text = 'text'
        self.raw = _Raw()


class _Session:
    adapters = {}

    def __init__(self, resp):
        self.resp = resp

    def post(self, *a, **k):
        return self.resp


_CONN = WBEMConnection('http://h', creds=('u', 'p'))


def _http_reply(status: int, reason: str, auth: Optional[str], ct: Optional[str], cimerr: Optional[str],
                pg: Optional[str], srt: Optional[str]):
    if kf.skip('c02_replies:http_reply', status=status, reason=reason, auth=auth, ct=ct, cimerr=cimerr, pg=pg, srt=srt):
        return None
    hdrs = {}
    if auth is not None:
        hdrs['WWW-Authenticate'] = auth
    if ct is not None:
        hdrs['Content-type'] = ct
    if cimerr is not None:
        hdrs['CIMError'] = cimerr
    if pg is not None:
        hdrs['PGErrorDetail'] = pg
    if srt is not None:
        hdrs['WBEMServerResponseTime'] = srt
    _CONN.session = _Session(_Resp(status, reason, hdrs, b'<CIM/>'))
    try:
        body, t = httpm.wbem_request(_CONN, b'<CIM/>', [('CIMOperation', 'MethodCall')])
    except Error:
        TAGS.append('err')
        return None
    TAGS.append('ok')
    if body != b'<CIM/>':
        return 'body altered'
    if status != 200:
        return 'non-200 status accepted'
    return None


def http_reply(status: int, reason: str, auth: Optional[str], ct: Optional[str], cimerr: Optional[str],
               pg: Optional[str], srt: Optional[str]) -> Optional[str]:
    """
    pre: 100 <= status <= 599 and len(reason) <= 2
    pre: auth is None or len(auth) <= HMAX
    pre: ct is None or len(ct) <= 2
    pre: cimerr is None or len(cimerr) <= 2
    pre: pg is None or len(pg) <= 2
    pre: srt is None or len(srt) <= 2
    post: _ is None
    """
    return _http_reply(status, reason, auth, ct, cimerr, pg, srt)


HMAX = 4 if mode.tier() == 'quick' else 6


def http_reply_reach(status: int, reason: str, auth: Optional[str], ct: Optional[str], cimerr: Optional[str],
                     pg: Optional[str], srt: Optional[str]) -> bool:
    """
    pre: 100 <= status <= 599 and len(reason) <= 2
    pre: auth is None or len(auth) <= HMAX
    pre: ct is None or len(ct) <= 2
    pre: cimerr is None or len(cimerr) <= 2
    pre: pg is None or len(pg) <= 2
    pre: srt is None or len(srt) <= 2
    post: _
    """
    del TAGS[:]
    r = _http_reply(status, reason, auth, ct, cimerr, pg, srt)
    return not ('ok' in TAGS and r is None)


# ------------------------------------------------------------------ H3: operation result checks
_REPLY = [None]
if not mode.REPLAY:
    ops.wbem_request = lambda conn, data, headers: (b'<reply/>', 0.0)
    ops.xml_to_tupletree_sax = lambda data, meaning, conn_id=None: _REPLY[0]
_OCONN = WBEMConnection('http://h', default_namespace='root/cimv2')
_PATH = CIMInstanceName('C', {'k': 'v'})
OPS = [
    ('GetInstance', lambda c: c.GetInstance(_PATH)),
    ('EnumerateInstanceNames', lambda c: c.EnumerateInstanceNames('C')),
    ('EnumerateInstances', lambda c: c.EnumerateInstances('C')),
    ('DeleteInstance', lambda c: c.DeleteInstance(_PATH)),
    ('CreateInstance', lambda c: c.CreateInstance(CIMInstance('C', path=_PATH))),
    ('ModifyInstance', lambda c: c.ModifyInstance(CIMInstance('C', path=_PATH))),
    ('GetClass', lambda c: c.GetClass('C')),
    ('EnumerateClasses', lambda c: c.EnumerateClasses()),
    ('EnumerateClassNames', lambda c: c.EnumerateClassNames()),
    ('GetQualifier', lambda c: c.GetQualifier('Q')),
    ('EnumerateQualifiers', lambda c: c.EnumerateQualifiers()),
    ('Associators', lambda c: c.Associators(_PATH)),
    ('AssociatorNames', lambda c: c.AssociatorNames(_PATH)),
    ('References', lambda c: c.References(_PATH)),
    ('ReferenceNames', lambda c: c.ReferenceNames(_PATH)),
    ('ExecQuery', lambda c: c.ExecQuery('WQL', 'select * from C')),
    ('OpenEnumerateInstances', lambda c: c.OpenEnumerateInstances('C')),
    ('OpenEnumerateInstancePaths', lambda c: c.OpenEnumerateInstancePaths('C')),
    ('PullInstancesWithPath', lambda c: c.PullInstancesWithPath(('ctx', 'root/cimv2'), 1)),
    ('PullInstancePaths', lambda c: c.PullInstancePaths(('ctx', 'root/cimv2'), 1)),
    ('PullInstances', lambda c: c.PullInstances(('ctx', 'root/cimv2'), 1)),
    ('OpenQueryInstances', lambda c: c.OpenQueryInstances('WQL', 'select * from C')),
    ('CloseEnumeration', lambda c: c.CloseEnumeration(('ctx', 'root/cimv2'))),
    ('InvokeMethod', lambda c: c.InvokeMethod('M', 'C')),
]
IRV_CHILD = [
    ('INSTANCE', {'CLASSNAME': 'C'}, []),
    ('INSTANCENAME', {'CLASSNAME': 'C'}, [('KEYBINDING', {'NAME': 'k'}, [('KEYVALUE', {}, ['v'])])]),
    ('CLASS', {'NAME': 'C'}, []),
    ('CLASSNAME', {'NAME': 'C'}, []),
    ('VALUE.NAMEDINSTANCE', {}, [('INSTANCENAME', {'CLASSNAME': 'C'}, []), ('INSTANCE', {'CLASSNAME': 'C'}, [])]),
    ('VALUE.INSTANCEWITHPATH', {}, [('INSTANCEPATH', {}, [('NAMESPACEPATH', {}, [('HOST', {}, ['h']), ('LOCALNAMESPACEPATH', {}, [('NAMESPACE', {'NAME': 'n'}, [])])]), ('INSTANCENAME', {'CLASSNAME': 'C'}, [])]), ('INSTANCE', {'CLASSNAME': 'C'}, [])]),
    ('INSTANCEPATH', {}, [('NAMESPACEPATH', {}, [('HOST', {}, ['h']), ('LOCALNAMESPACEPATH', {}, [('NAMESPACE', {'NAME': 'n'}, [])])]), ('INSTANCENAME', {'CLASSNAME': 'C'}, [])]),
    ('VALUE.OBJECTWITHPATH', {}, [('INSTANCEPATH', {}, [('NAMESPACEPATH', {}, [('HOST', {}, ['h']), ('LOCALNAMESPACEPATH', {}, [('NAMESPACE', {'NAME': 'n'}, [])])]), ('INSTANCENAME', {'CLASSNAME': 'C'}, [])]), ('INSTANCE', {'CLASSNAME': 'C'}, [])]),
    ('OBJECTPATH', {}, [('INSTANCEPATH', {}, [('NAMESPACEPATH', {}, [('HOST', {}, ['h']), ('LOCALNAMESPACEPATH', {}, [('NAMESPACE', {'NAME': 'n'}, [])])]), ('INSTANCENAME', {'CLASSNAME': 'C'}, [])])]),
    ('QUALIFIER.DECLARATION', {'NAME': 'Q', 'TYPE': 'string'}, []),
    ('VALUE', {}, ['x']),
    ('VALUE.OBJECT', {}, [('INSTANCE', {'CLASSNAME': 'C'}, [])]),
]


def _op_reply(op: int, kind: int, code: str, desc: Optional[str], n: int, child: int, rname: int, eos: Optional[str],
              ctx: Optional[str], ptype: Optional[str], pval: Optional[str]):
    if kf.skip('c02_replies:op_reply', op=op, kind=kind, code=code, desc=desc, n=n, child=child, rname=rname, eos=eos, ctx=ctx, ptype=ptype, pval=pval):
        return None
    opname, call = OPS[op]
    _REPLY[0] = _build(op, kind, code, desc, n, child, rname, eos, ctx, ptype, pval)
    try:
        call(_OCONN)
    except Error as e:
        TAGS.append('err')
        if isinstance(e, pywbem.ParseError) and (e.request_data is None or e.response_data is None):
            return 'ParseError without request/response data'
        return None
    TAGS.append('ok')
    return None


def _build(op, kind, code, desc, n, child, rname, eos, ctx, ptype, pval):
    opname, call = OPS[op]
    extrinsic = opname == 'InvokeMethod'
    kids = []
    if kind == 0:
        a = {'CODE': code}
        if desc is not None:
            a['DESCRIPTION'] = desc
        kids = [('ERROR', a, [])]
    elif kind == 1:
        if extrinsic:
            a = {}
            if ptype is not None:
                a['PARAMTYPE'] = ptype
            kids = [('RETURNVALUE', a, [('VALUE', {}, [pval])] if pval is not None else [])]
        else:
            kids = [('IRETURNVALUE', {}, [IRV_CHILD[child]] * n)]
    if kind != 0 and (eos is not None or ctx is not None or (extrinsic and kind == 2)):
        if eos is not None:
            kids.append(('PARAMVALUE', {'NAME': 'EndOfSequence', 'PARAMTYPE': 'boolean'}, [('VALUE', {}, [eos])]))
        if ctx is not None:
            kids.append(('PARAMVALUE', {'NAME': 'EnumerationContext', 'PARAMTYPE': 'string'}, [('VALUE', {}, [ctx])]))
        if extrinsic and kind == 2:
            a = {'NAME': 'o'}
            if ptype is not None:
                a['PARAMTYPE'] = ptype
            kids.append(('PARAMVALUE', a, [('VALUE', {}, [pval])] if pval is not None else []))
    name = opname if rname == 0 else 'Other'
    rsp = 'METHODRESPONSE' if extrinsic else 'IMETHODRESPONSE'
    return ('CIM', {'CIMVERSION': '2.0', 'DTDVERSION': '2.0'},
            [('MESSAGE', {'ID': '1', 'PROTOCOLVERSION': '1.0'}, [('SIMPLERSP', {}, [(rsp, {'NAME': name}, kids)])])])


def op_reply(op: int, kind: int, code: str, desc: Optional[str], n: int, child: int, rname: int, eos: Optional[str],
             ctx: Optional[str], ptype: Optional[str], pval: Optional[str]) -> Optional[str]:
    """
    pre: 0 <= op < len(OPS) and op % NPARTS == PART
    pre: 0 <= kind < 3 and len(code) <= 2 and 0 <= n <= 2 and 0 <= child < len(IRV_CHILD) and 0 <= rname < 2
    pre: desc is None or len(desc) <= 1
    pre: eos is None or len(eos) <= 5
    pre: ctx is None or len(ctx) <= 1
    pre: ptype is None or len(ptype) <= 6
    pre: pval is None or len(pval) <= 2
    post: _ is None
    """
    return _op_reply(op, kind, code, desc, n, child, rname, eos, ctx, ptype, pval)


def op_reply_reach(op: int, kind: int, code: str, desc: Optional[str], n: int, child: int, rname: int, eos: Optional[str],
                   ctx: Optional[str], ptype: Optional[str], pval: Optional[str]) -> bool:
    """
    pre: 0 <= op < len(OPS)
    pre: 0 <= kind < 3 and len(code) <= 2 and 0 <= n <= 2 and 0 <= child < len(IRV_CHILD) and 0 <= rname < 2
    pre: desc is None or len(desc) <= 1
    pre: eos is None or len(eos) <= 5
    pre: ctx is None or len(ctx) <= 1
    pre: ptype is None or len(ptype) <= 6
    pre: pval is None or len(pval) <= 2
    post: _
    """
    del TAGS[:]
    r = _op_reply(op, kind, code, desc, n, child, rname, eos, ctx, ptype, pval)
    return not ('ok' in TAGS and r is None and n >= 1)


def replay_op_reply(**args):
    """Native replay through the REAL transport path: the reply tuple tree is serialised to
    XML bytes and delivered by a scripted HTTP adapter mounted on conn.session."""
    import requests
    from requests.adapters import BaseAdapter
    opname, call = OPS[args['op']]
    tt = _build(**args)

    def ser(t):
        from xml.sax.saxutils import escape, quoteattr
        if isinstance(t, str):
            return escape(t)
        return '<%s%s>%s</%s>' % (t[0], ''.join(' %s=%s' % (k, quoteattr(v)) for k, v in t[1].items()),
                                  ''.join(ser(c) for c in t[2]), t[0])
    body = ('<?xml version="1.0" encoding="utf-8" ?>' + ser(tt)).encode('utf-8')

    class Scripted(BaseAdapter):
        def send(self, request, **kw):
            r = requests.Response()
            r.status_code = 200
            r.reason = 'OK'
            r.headers['Content-type'] = 'application/xml; charset="utf-8"'
            r._content = body
            r.raw = _Raw()
            r.request = request
            return r

        def close(self):
            pass
    conn = WBEMConnection('http://h', default_namespace='root/cimv2')
    conn.session.mount('http://', Scripted())
    try:
        call(conn)
    except Error as e:
        if isinstance(e, pywbem.ParseError) and (e.request_data is None or e.response_data is None):
            return True, 'ParseError without request/response data: %r' % e
        return False, 'raised %s' % type(e).__name__
    except Exception as e:
        return True, '%s escaped from %s: %s' % (type(e).__name__, opname, e)
    return False, 'returned'


# ------------------------------------------------------------------ H3b: every operation x every reply shape (selectors only)
def _run_shape(*a):
    if mode.REPLAY:
        return _op_reply(*a)
    from crosshair.core import realize
    from crosshair.tracers import NoTracing
    b = [realize(x) for x in a]
    with NoTracing():
        return _op_reply(*b)


SHAPE_STR = [None, '', '0', '5', 'x', 'TRUE', 'false']
SHAPE_CTX = [None, '', 'c']
SHAPES = []
for _kind in range(3):
    for _n in range(3):
        for _child in range(len(IRV_CHILD)):
            if _kind == 0 and (_n or _child):
                continue
            for _rname in range(2):
                SHAPES.append((_kind, _n, _child, _rname, 0, 0, 0))
                if _child == 0 and _n <= 1:
                    for _e in range(1, len(SHAPE_STR)):
                        SHAPES.append((_kind, _n, _child, _rname, _e, 0, 0))
                        SHAPES.append((_kind, _n, _child, _rname, 0, 0, _e))
                    for _c in range(1, len(SHAPE_CTX)):
                        SHAPES.append((_kind, _n, _child, _rname, 0, _c, 0))


def _shape_args(op, sel):
    kind, n, child, rname, esel, csel, psel = SHAPES[sel]
    return dict(op=op, kind=kind, code=(SHAPE_STR[psel] or '') if kind == 0 else '', desc=None, n=n, child=child, rname=rname, eos=SHAPE_STR[esel],
                ctx=SHAPE_CTX[csel], ptype='string' if psel else None, pval=SHAPE_STR[psel])


def _shape(op, bits):
    sel = 0
    for i, b in enumerate(bits):        # one fork per selector bit: the decision tree is a complete binary tree
        if b:
            sel += 1 << i
    if sel >= len(SHAPES):
        return None
    if not mode.REPLAY:
        from crosshair.core import realize
        from crosshair.tracers import NoTracing
        op = realize(op)
        with NoTracing():
            return _op_reply(**_shape_args(op, sel))
    return _op_reply(**_shape_args(op, sel))


def op_shape(op: int, b0: bool, b1: bool, b2: bool, b3: bool, b4: bool, b5: bool, b6: bool, b7: bool, b8: bool) -> Optional[str]:
    """
    pre: 0 <= op < len(OPS) and op % NPARTS == PART
    post: _ is None
    """
    return _shape(op, (b0, b1, b2, b3, b4, b5, b6, b7, b8))


def op_shape_reach(op: int, b0: bool, b1: bool, b2: bool, b3: bool, b4: bool, b5: bool, b6: bool, b7: bool, b8: bool) -> bool:
    """
    pre: 0 <= op < len(OPS) and op % NPARTS == PART
    post: _
    """
    del TAGS[:]
    r = _shape(op, (b0, b1, b2, b3, b4, b5, b6, b7, b8))
    return not (r is None and ('ok' in TAGS or 'err' in TAGS))


def replay_op_shape(op, **bits):
    sel = sum(1 << i for i in range(9) if bits.get('b%d' % i))
    if sel >= len(SHAPES):
        return False, 'selector outside the shape table'
    return replay_op_reply(**_shape_args(op, sel))
