"""C15 harness (E1): the Iter... operations against a non-deterministic scripted server.

The real Iter... generator code of WBEMConnection runs on a connection whose Open.../Pull.../
CloseEnumeration and traditional operations are replaced by a scripted server driven by
symbolic integers (result size, pull supported or not, a CIMError with symbolic status code at
a symbolic call index).  Symbolic: which of the 7 Iter operations, use_pull_operations,
MaxObjectCount, how many items the caller consumes before close(), optional FilterQuery /
ContinueOnError, and a second Iter call on the same connection (stickiness).
"""
import warnings
warnings.simplefilter('ignore')
from typing import Optional
from verifpw import kf, mode
import pywbem
from pywbem import (WBEMConnection, CIMError, CIMInstance, CIMInstanceName, CIM_ERR_NOT_SUPPORTED, CIM_ERR_FAILED,
                    CIM_ERR_INVALID_ENUMERATION_CONTEXT, CIM_ERR_ACCESS_DENIED)
import pywbem._cim_operations as ops

if not mode.REPLAY:
    ops._format = lambda *a, **k: 'msg'
PART, NPARTS = mode.part()
TAGS = []
ITERS = ['IterEnumerateInstances', 'IterEnumerateInstancePaths', 'IterAssociatorInstances', 'IterAssociatorInstancePaths',
         'IterReferenceInstances', 'IterReferenceInstancePaths', 'IterQueryInstances']
OPEN = ['OpenEnumerateInstances', 'OpenEnumerateInstancePaths', 'OpenAssociatorInstances', 'OpenAssociatorInstancePaths',
        'OpenReferenceInstances', 'OpenReferenceInstancePaths', 'OpenQueryInstances']
PULL = ['PullInstancesWithPath', 'PullInstancePaths', 'PullInstancesWithPath', 'PullInstancePaths', 'PullInstancesWithPath',
        'PullInstancePaths', 'PullInstances']
TRAD = ['EnumerateInstances', 'EnumerateInstanceNames', 'Associators', 'AssociatorNames', 'References', 'ReferenceNames', 'ExecQuery']
FLAGS = ['_use_enum_inst_pull_operations', '_use_enum_path_pull_operations', '_use_assoc_inst_pull_operations',
         '_use_assoc_path_pull_operations', '_use_ref_inst_pull_operations', '_use_ref_path_pull_operations', '_use_query_pull_operations']
CODES = [CIM_ERR_NOT_SUPPORTED, CIM_ERR_FAILED, CIM_ERR_ACCESS_DENIED]
SRC = CIMInstanceName('C', {'k': 's'}, namespace='root/x')


def obj(i, paths, full):
    p = CIMInstanceName('C', {'k': 'o%d' % i}, namespace='root/x' if full else None, host='srv' if full else None)
    return p if paths else CIMInstance('C', properties={'k': 'o%d' % i}, path=p)


class Server:
    """Scripted server: a correct pull server (or one without pull) that fails once with a
    CIMError at call index fail_at."""
    def __init__(self, n, has_pull, fail_at, fail_code):
        self.n, self.has_pull, self.fail_at, self.fail_code = n, has_pull, fail_at, fail_code
        self.calls = 0
        self.open_ctx = 0          # number of open enumeration contexts
        self.pos = 0
        self.closed = 0
        self.log = []

    def tick(self, what):
        self.log.append(what)
        i = self.calls
        self.calls += 1
        if i == self.fail_at:
            raise CIMError(self.fail_code, 'scripted')

    def batch(self, moc, paths, tuple_cls, query=False):
        k = moc if moc is not None else 0
        items = []
        while len(items) < k and self.pos < self.n:
            items.append(obj(self.pos, paths, True))
            self.pos += 1
        eos = self.pos >= self.n
        if eos:
            self.open_ctx = 0
        ctx = None if eos else ('ctx', 'root/x')
        if query:
            return tuple_cls(items, eos, ctx, None)
        return tuple_cls(items, eos, ctx)


def attach(conn, srv, op):
    paths = op in (1, 3, 5)
    tcls = ops.pull_path_result_tuple if paths else (ops.pull_query_result_tuple if op == 6 else ops.pull_inst_result_tuple)

    def do_open(*a, **k):
        srv.tick('open')
        if not srv.has_pull:
            raise CIMError(CIM_ERR_NOT_SUPPORTED, 'no pull')
        srv.pos = 0
        srv.open_ctx = 1
        return srv.batch(k.get('MaxObjectCount'), paths, tcls, op == 6)

    def do_pull(context, MaxObjectCount=None):
        srv.tick('pull')
        if not srv.open_ctx:
            raise CIMError(CIM_ERR_INVALID_ENUMERATION_CONTEXT, 'no ctx')
        return srv.batch(MaxObjectCount, paths, tcls, op == 6)

    def do_close(context):
        srv.log.append('close')
        srv.closed += 1
        if not srv.open_ctx:
            raise CIMError(CIM_ERR_INVALID_ENUMERATION_CONTEXT, 'no ctx')
        srv.open_ctx = 0

    def do_trad(*a, **k):
        srv.log.append('trad')
        # EnumerateInstances/Names answer with INSTANCENAME (no namespace/host); the association and query
        # operations answer with full object paths
        return [obj(i, paths, op >= 2) for i in range(srv.n)]
    setattr(conn, OPEN[op], do_open)
    setattr(conn, PULL[op], do_pull)
    conn.CloseEnumeration = do_close
    setattr(conn, TRAD[op], do_trad)


CONN = WBEMConnection('http://hst', default_namespace='root/x')


def reset(upo):
    for f in FLAGS:
        setattr(CONN, f, upo)
    CONN._use_pull_operations = upo


def call_iter(op, moc, fq, coe):
    kw = dict(MaxObjectCount=moc)
    if coe is not None:
        kw['ContinueOnError'] = coe
    if op == 6:
        r = CONN.IterQueryInstances('WQL', 'select', **kw)
        return r.generator
    if op < 2:
        args = ('C',)
    else:
        args = (SRC,)
    if fq is not None:
        kw['FilterQuery'] = fq
        kw['FilterQueryLanguage'] = 'DMTF:FQL'
    return getattr(CONN, ITERS[op])(*args, **kw)


def consume(op, moc, fq, coe, take):
    """Returns (items, exception or None)."""
    items = []
    try:
        g = call_iter(op, moc, fq, coe)
        it = iter(g)
        n = 0
        while take < 0 or n < take:
            try:
                items.append(next(it))
            except StopIteration:
                break
            n += 1
        if hasattr(g, 'close'):
            g.close()
    except (CIMError, ValueError, TypeError) as e:
        return items, e
    return items, None


def key_of(o):
    p = o if isinstance(o, CIMInstanceName) else o.path
    return p['k']


def _iter_step(op: int, upo: Optional[bool], n: int, has_pull: bool, fail_at: int, fcode: int, moc: Optional[int], take: int,
               fq: Optional[str], coe: Optional[bool], op0: int):
    if kf.skip('c15_iter:iter_step', ITERS=ITERS, op=ITERS[op], upo=upo, n=n, has_pull=has_pull, fail_at=fail_at, fcode=fcode, moc=moc, take=take, fq=fq, coe=coe, op0=op0):
        return None
    reset(upo)
    # optional earlier Iter call of another kind on the same connection (what the connection learns must not hurt later calls)
    if op0 < 7:
        srv0 = Server(1, has_pull, -1, 0)
        attach(CONN, srv0, op0)
        consume(op0, 1, None, None, -1)
    srv = Server(n, has_pull, fail_at, CODES[fcode])
    attach(CONN, srv, op)
    items, exc = consume(op, moc, fq, coe, take)
    # ---- expected behaviour from the property text
    if take == 0 and op != 6:
        # a generator that is never advanced has not run any code: nothing may have been sent
        if srv.calls or srv.closed or 'trad' in srv.log or exc is not None:
            return '%s: an un-started iterator talked to the server' % ITERS[op]
        return None
    if moc is None or moc <= 0:
        if take == 0 and op != 6:
            return None             # generator never started: nothing was validated yet
        if not isinstance(exc, ValueError) or items:
            return '%s: invalid MaxObjectCount %r not refused with ValueError' % (ITERS[op], moc)
        return None
    code = CODES[fcode]
    use_pull = None
    if upo is None and op0 == op and not has_pull:
        # the earlier call of the same kind learned "no pull": the connection goes straight to the traditional
        # operation, which is what a fresh connection ends up with as well (only the scripted call index differs).
        # Having learned "pull works" must NOT change the outcome: the expectation below stays that of a fresh connection.
        upo = False
    if upo is True:
        if not has_pull:
            want_exc = CIM_ERR_NOT_SUPPORTED if fail_at != 0 else code
            if not isinstance(exc, CIMError) or exc.status_code != want_exc:
                return '%s: pull forced on a server without pull did not raise the server error' % ITERS[op]
            return None
        use_pull = True
    elif upo is False:
        use_pull = False
    else:
        open_fails = (not has_pull) or fail_at == 0
        if open_fails:
            ocode = code if fail_at == 0 else CIM_ERR_NOT_SUPPORTED
            if ocode in (CIM_ERR_NOT_SUPPORTED, CIM_ERR_FAILED):
                use_pull = False
            else:
                if not isinstance(exc, CIMError) or exc.status_code != ocode:
                    return '%s: Open failed with status %d but the iterator did not raise it' % (ITERS[op], ocode)
                return None
        else:
            use_pull = True
    allkeys = ['o%d' % i for i in range(n)]
    limit = n if take < 0 else min(take, n)
    if not use_pull:
        if (fq is not None and op != 6 and op < 6) or coe is not None:
            if not isinstance(exc, ValueError):
                return '%s: FilterQuery/ContinueOnError with the traditional fallback not refused with ValueError' % ITERS[op]
            return None
        if exc is not None:
            return '%s: traditional fallback raised %s' % (ITERS[op], type(exc).__name__)
        got = [key_of(o) for o in items]
        if got != allkeys[:limit]:
            return '%s: fallback yielded %s instead of %s' % (ITERS[op], got, allkeys[:limit])
        for o in items:
            p = o if isinstance(o, CIMInstanceName) else o.path
            if p.namespace is None or (p.host is None and op != 6):
                return '%s: object from the traditional fallback lacks namespace/host in its path' % ITERS[op]
        if srv.closed:
            return '%s: CloseEnumeration called although no enumeration was opened' % ITERS[op]
        TAGS.append('fallback')
        return None
    # pull mode on a pull server: objects in order; a failing Pull must surface as that CIMError
    got = [key_of(o) for o in items]
    if upo is True and fail_at == 0:
        if not isinstance(exc, CIMError) or exc.status_code != code:
            return '%s: failing Open not raised' % ITERS[op]
        return None
    # how many server calls are needed to deliver `limit` items (op 6 collects everything before yielding)
    if got != allkeys[:len(got)]:
        return '%s: yielded %s which is not a prefix of the traditional result' % (ITERS[op], got)
    if exc is not None:
        if not isinstance(exc, CIMError) or fail_at < 1 or exc.status_code != code:
            return '%s: raised %s although the scripted server did not fail that way' % (ITERS[op], type(exc).__name__)
        if srv.open_ctx and not srv.closed:
            pass       # the context is broken on the server side; closing is best effort
        return None
    if len(got) != limit:
        return '%s: yielded %d objects instead of %d (scripted failure swallowed or objects lost/duplicated)' % (ITERS[op], len(got), limit)
    if fail_at >= 1 and fail_at < srv.calls:
        return '%s: a failing Pull (status %d) did not surface as an exception' % (ITERS[op], code)
    if srv.open_ctx:
        return '%s: enumeration context left open on the server after close()/exhaustion' % ITERS[op]
    if 'trad' in srv.log:
        return '%s: traditional operation issued although pull was used' % ITERS[op]
    TAGS.append('pulled')
    return None


def iter_step(op: int, upo: Optional[bool], n: int, has_pull: bool, fail_at: int, fcode: int, moc: Optional[int], take: int,
              fq: Optional[str], coe: Optional[bool], op0: int) -> Optional[str]:
    """
    pre: 0 <= op < 7 and 0 <= n <= NMAX and -1 <= fail_at <= 3 and 0 <= fcode < 3 and -1 <= take <= NMAX and 0 <= op0 <= 7
    pre: moc is None or moc <= 3
    pre: fq is None or len(fq) <= 1
    pre: op % NPARTS == PART
    post: _ is None
    """
    return _iter_step(op, upo, n, has_pull, fail_at, fcode, moc, take, fq, coe, op0)


NMAX = 3 if mode.tier() == 'quick' else 5


def iter_step_reach(op: int, upo: Optional[bool], n: int, has_pull: bool, fail_at: int, fcode: int, moc: Optional[int], take: int,
                    fq: Optional[str], coe: Optional[bool], op0: int) -> bool:
    """
    pre: 0 <= op < 7 and 0 <= n <= NMAX and -1 <= fail_at <= 3 and 0 <= fcode < 3 and -1 <= take <= NMAX and 0 <= op0 <= 7
    pre: moc is None or moc <= 3
    pre: fq is None or len(fq) <= 1
    pre: op % NPARTS == PART
    post: _
    """
    del TAGS[:]
    r = _iter_step(op, upo, n, has_pull, fail_at, fcode, moc, take, fq, coe, op0)
    return not (r is None and 'pulled' in TAGS and n >= 2)
