"""C13 harness (E1): association traversal is consistent with the stored association instances.

graph(): association instances are generated from symbolic selectors (class of each slot,
end points, presence), created on the real mock server; Associators / AssociatorNames /
References / ReferenceNames for a selector-chosen source and filter combination are compared
with the result computed directly from the adjacency per the property text; plus: Names =
paths of the full results, symmetry, and "adding a filter never adds results".
"""
import warnings
warnings.simplefilter('ignore')
import pickle
from typing import Optional
from verifpw import kf, mode
import pywbem
import pywbem_mock
from pywbem import CIMError, Error, CIMInstance, CIMInstanceName, CIMProperty

PART, NPARTS = mode.part()
TAGS = []
MOF = '''
Qualifier Key : boolean = false, Scope(property, reference), Flavor(DisableOverride, ToSubclass);
Qualifier Association : boolean = false, Scope(association), Flavor(DisableOverride, ToSubclass);
class N { [Key] string K; };
class N2 : N { string Extra; };
[Association] class A_Bin { [Key] N REF Ante; [Key] N REF Dep; };
[Association] class A_Sub : A_Bin { string Note; };
[Association] class A_Ter { [Key] N REF X; [Key] N REF Y; [Key] N REF Z; };
[Association] class A_Opt { [Key] string Id; N REF L; N REF R; };
'''
NODES = [('N', 'n0'), ('N', 'n1'), ('N2', 'n2'), ('N', 'n3')]
CONN = pywbem_mock.FakedWBEMConnection(default_namespace='root/a')
CONN.compile_mof_string(MOF, namespace='root/a')
for _c, _k in NODES:
    CONN.CreateInstance(CIMInstance(_c, properties={'K': _k}))
REPO0 = pickle.dumps(CONN.cimrepository)
ACLASSES = ['A_Bin', 'A_Sub', 'A_Ter', 'A_Opt']
ROLES = {'A_Bin': ['Ante', 'Dep'], 'A_Sub': ['Ante', 'Dep'], 'A_Ter': ['X', 'Y', 'Z'], 'A_Opt': ['L', 'R']}
SUBCLS = {'a_bin': ['a_bin', 'a_sub'], 'a_sub': ['a_sub'], 'a_ter': ['a_ter'], 'a_opt': ['a_opt'], 'n': ['n', 'n2'], 'n2': ['n2']}
ASSOC_F = [None, 'A_Bin', 'A_Sub', 'a_bin', 'A_Ter', 'A_Opt']
RESULT_F = [None, 'N', 'N2', 'n']
ROLE_F = [None, 'Ante', 'Dep', 'ante', 'X', 'L', 'R', 'Nope']


def npath(i):
    return CIMInstanceName(NODES[i][0], {'K': NODES[i][1]}, namespace='root/a')


def mk_assoc(slot, cls, ends):
    """ends: list of node indexes (or None for a NULL reference end, A_Opt only)."""
    roles = ROLES[cls]
    props = []
    kb = {}
    if cls == 'A_Opt':
        props.append(CIMProperty('Id', 'id%d' % slot))
        kb['Id'] = 'id%d' % slot
    for r, e in zip(roles, ends):
        v = None if e is None else npath(e)
        props.append(CIMProperty(r, v, type='reference', reference_class='N'))
        if cls != 'A_Opt':
            kb[r] = v
    if cls == 'A_Sub':
        props.append(CIMProperty('Note', 'x'))
    return CIMInstance(cls, properties=props, path=CIMInstanceName(cls, kb, namespace='root/a'))


def decode_slot(slot, code):
    """code 0 = absent; else class = (code-1) % 4, ends from the higher digits (base 5: 4 = NULL end)."""
    if code == 0:
        return None
    c = (code - 1) % 4
    rest = (code - 1) // 4
    cls = ACLASSES[c]
    ends = []
    for _ in ROLES[cls]:
        e = rest % 5
        rest //= 5
        if e == 4:
            if cls != 'A_Opt':
                e = 0                   # key references cannot be NULL
            else:
                e = None
        ends.append(e)
    return cls, ends


def _graph(s0: int, s1: int, s2: int, src: int, af: int, rf: int, role: int, rrole: int):
    slots = [decode_slot(i, c) for i, c in enumerate((s0, s1, s2))]
    has_null = any(s is not None and None in s[1] for s in slots)
    if kf.skip('c13_assoc:graph', has_null_end=has_null, src=src, af=af, rf=rf, role=role, rrole=rrole):
        return None
    CONN.cimrepository.load(pickle.loads(REPO0))
    store = CONN.cimrepository.get_instance_store('root/a')
    insts = []
    seen = set()
    for i, s in enumerate(slots):
        if s is None:
            continue
        inst = mk_assoc(i, s[0], s[1])
        key = str(inst.path)
        if key in seen:
            continue
        seen.add(key)
        CONN.CreateInstance(inst)
        insts.append((s[0], s[1], inst.path))
    TAGS.append('built')
    x = npath(src)
    AF, RF, RO, RR = ASSOC_F[af], RESULT_F[rf], ROLE_F[role], ROLE_F[rrole]

    def assoc_ok(cls, f):
        return f is None or cls.lower() in SUBCLS[f.lower()]

    def node_ok(j, f):
        return f is None or NODES[j][0].lower() in SUBCLS[f.lower()]

    def role_ok(r, f):
        return f is None or r.lower() == f.lower()

    def want_assoc(xi, AF, RF, RO, RR):
        out = set()
        maybe_self = False
        for cls, ends, path in insts:
            roles = ROLES[cls]
            for pi, e1 in enumerate(ends):
                if e1 != xi or not role_ok(roles[pi], RO) or not assoc_ok(cls, AF):
                    continue
                for qi, e2 in enumerate(ends):
                    if qi == pi or e2 is None:
                        continue
                    if role_ok(roles[qi], RR) and node_ok(e2, RF):
                        if e2 == xi:
                            maybe_self = True
                        else:
                            out.add(e2)
        return out, maybe_self

    def want_refs(xi, RC, RO):
        out = set()
        for cls, ends, path in insts:
            if not assoc_ok(cls, RC):
                continue
            for pi, e1 in enumerate(ends):
                if e1 == xi and role_ok(ROLES[cls][pi], RO):
                    out.add(str(path))
        return out

    def idx(p):
        for j, (c, k) in enumerate(NODES):
            if p['K'] == k:
                return j
        return -1
    try:
        full = CONN.Associators(x, AssocClass=AF, ResultClass=RF, Role=RO, ResultRole=RR)
        names = CONN.AssociatorNames(x, AssocClass=AF, ResultClass=RF, Role=RO, ResultRole=RR)
        refs = CONN.References(x, ResultClass=AF, Role=RO)
        refnames = CONN.ReferenceNames(x, ResultClass=AF, Role=RO)
    except CIMError as e:
        return 'traversal of a valid graph raised CIMError %d' % e.status_code
    except TypeError as e:
        return 'traversal raised TypeError (%s)' % str(e)[:60]
    got = set(idx(i.path) for i in full)
    gotn = set(idx(p) for p in names)
    if got != gotn or len(full) != len(names):
        return 'AssociatorNames differs from the paths of Associators'
    if set(str(i.path) for i in refs) != set(str(p) for p in refnames) or len(refs) != len(refnames):
        return 'ReferenceNames differs from the paths of References'
    want, maybe_self = want_assoc(src, AF, RF, RO, RR)
    if got - {src} != want:
        return 'Associators(%s, AssocClass=%r, ResultClass=%r, Role=%r, ResultRole=%r) returned nodes %s, the stored associations give %s' % (
            NODES[src][1], AF, RF, RO, RR, sorted(got - {src}), sorted(want))
    if src in got and not maybe_self:
        return 'Associators returned the source object although no association links it to itself'
    wr = want_refs(src, AF, RO)
    gr = set(str(p.copy()) for p in refnames)
    gr = set(_nohost(p) for p in refnames)
    if gr != wr:
        return 'ReferenceNames(%s, ResultClass=%r, Role=%r) returned %d paths, the stored associations give %d' % (NODES[src][1], AF, RO, len(gr), len(wr))
    # adding a filter never adds results
    loose = set(idx(p) for p in CONN.AssociatorNames(x, AssocClass=AF, ResultClass=None, Role=RO, ResultRole=None))
    if not gotn <= loose:
        return 'adding ResultClass/ResultRole filters added results'
    # symmetry (unfiltered)
    unf = set(idx(p) for p in CONN.AssociatorNames(x))
    for y in unf:
        if y == src or y < 0:
            continue
        back = set(idx(p) for p in CONN.AssociatorNames(npath(y)))
        if src not in back:
            return 'association is not symmetric: %s -> %s but not back' % (NODES[src][1], NODES[y][1])
    # a second identical query must give the same result (no state is changed by reading)
    again = set(idx(p) for p in CONN.AssociatorNames(x, AssocClass=AF, ResultClass=RF, Role=RO, ResultRole=RR))
    if again != gotn:
        return 'repeating the query gives a different result'
    refs2 = set(_nohost(p) for p in CONN.ReferenceNames(x, ResultClass=AF, Role=RO))
    if refs2 != gr:
        return 'repeating ReferenceNames gives a different result'
    TAGS.append('checked')
    return None


def _nohost(p):
    q = p.copy()
    q.host = None
    return str(q)


def _run(*a):
    if mode.REPLAY:
        return _graph(*a)
    from crosshair.core import realize
    from crosshair.tracers import NoTracing
    from selpick import pick_all
    b = pick_all(a)
    with NoTracing():
        return _graph(*b)


NCODES = 1 + 4 * 125


def graph(s0: int, s1: int, s2: int, src: int, af: int, rf: int, role: int, rrole: int) -> Optional[str]:
    """
    pre: 0 <= s0 < NCODES and 0 <= s1 < NCODES and 0 <= s2 < NCODES and 0 <= src < 4
    pre: 0 <= af < len(ASSOC_F) and 0 <= rf < len(RESULT_F) and 0 <= role < len(ROLE_F) and 0 <= rrole < len(ROLE_F)
    pre: (af * 4 + src) % NPARTS == PART
    post: _ is None
    """
    return _run(s0, s1, s2, src, af, rf, role, rrole)


def graph_reach(s0: int, s1: int, s2: int, src: int, af: int, rf: int, role: int, rrole: int) -> bool:
    """
    pre: 0 <= s0 < NCODES and 0 <= s1 < NCODES and 0 <= s2 < NCODES and 0 <= src < 4
    pre: 0 <= af < len(ASSOC_F) and 0 <= rf < len(RESULT_F) and 0 <= role < len(ROLE_F) and 0 <= rrole < len(ROLE_F)
    pre: (af * 4 + src) % NPARTS == PART
    post: _
    """
    del TAGS[:]
    r = _run(s0, s1, s2, src, af, rf, role, rrole)
    return not (r is None and 'checked' in TAGS and s0 > 0)


# ---------------------------------------------------------------------------------------
# H2 history independence: query, change the repository (new subclass + instances, new or deleted
# association instances), query again.  The property quantifies over repositories, so the second
# answer must be a function of the stored state alone: it is compared with the answer of a FRESH
# server loaded with the same final repository, and with what the change implies directly.
CHANGES = ['new association subclass with instance', 'new node subclass with linked instance', 'new node sub-subclass with linked instance',
           'delete the association instance', 'add association subclass instance']


def _q(conn, x, AF, RF):
    return (sorted(_nohost(p) for p in conn.AssociatorNames(x, AssocClass=AF, ResultClass=RF)),
            sorted(_nohost(i.path) for i in conn.Associators(x, AssocClass=AF, ResultClass=RF)),
            sorted(_nohost(p) for p in conn.ReferenceNames(x, ResultClass=AF)),
            sorted(_nohost(i.path) for i in conn.References(x, ResultClass=AF)))


def _history(s0: int, src: int, af: int, rf: int, change: int, warm: bool):
    slot = decode_slot(0, s0)
    CONN.cimrepository.load(pickle.loads(REPO0))
    first = None
    if slot is not None:
        first = mk_assoc(0, slot[0], slot[1])
        CONN.CreateInstance(first)
    x = npath(src)
    AF, RF = ASSOC_F[af], RESULT_F[rf]
    TAGS.append('start')
    try:
        if warm:
            _q(CONN, x, AF, RF)
        other = npath((src + 1) % 4)
        new_ref = None
        new_node = None
        if change == 0:
            CONN.compile_mof_string('[Association] class A_New : A_Bin { };', namespace='root/a')
            new_ref = CONN.CreateInstance(CIMInstance('A_New', properties={'Ante': x, 'Dep': other}))
        elif change in (1, 2):
            CONN.compile_mof_string('class N3 : %s { };' % ('N' if change == 1 else 'N2'), namespace='root/a')
            new_node = CONN.CreateInstance(CIMInstance('N3', properties={'K': 'n4'}))
            CONN.CreateInstance(CIMInstance('A_Bin', properties={'Ante': x, 'Dep': new_node}))
        elif change == 3:
            if first is None:
                return None
            CONN.DeleteInstance(first.path)
        else:
            new_ref = CONN.CreateInstance(CIMInstance('A_Sub', properties={'Ante': x, 'Dep': npath((src + 2) % 4)}))
        TAGS.append('changed')
        got = _q(CONN, x, AF, RF)
        fresh = pywbem_mock.FakedWBEMConnection(default_namespace='root/a')
        fresh.cimrepository.load(pickle.loads(pickle.dumps(CONN.cimrepository)))
        want = _q(fresh, x, AF, RF)
    except CIMError as e:
        if e.status_code == pywbem.CIM_ERR_ALREADY_EXISTS and 'changed' not in TAGS[-1:]:
            return None     # the change asks for an instance that the pre-state already holds: legitimately refused
        return 'valid sequence raised CIMError %d' % e.status_code
    except Error as e:
        return 'valid sequence raised %s' % type(e).__name__
    if got != want:
        return 'after "%s" the traversal answers differ from a fresh server holding the same repository (%s)' % (
            CHANGES[change], 'warm' if warm else 'cold')
    bin_ok = AF is None or AF.lower() == 'a_bin'
    if change == 0 and bin_ok and _nohost(new_ref) not in got[2]:
        return 'instance of a new subclass of the ResultClass filter class is not returned by ReferenceNames'
    if change in (1, 2) and bin_ok:
        rf_ok = RF is None or RF.lower() == 'n' or (change == 2 and RF.lower() == 'n2')
        if rf_ok != (_nohost(new_node) in got[0]):
            return 'instance of a new subclass of the ResultClass filter class is %s by AssociatorNames' % ('not returned' if rf_ok else 'returned')
    if change == 3 and _nohost(first.path) in got[2]:
        return 'deleted association instance still returned'
    if change == 4 and (bin_ok or AF == 'A_Sub') and _nohost(new_ref) not in got[2]:
        return 'new association instance not returned by ReferenceNames'
    TAGS.append('checked')
    return None


def _run_h(*a):
    if mode.REPLAY:
        return _history(*a)
    from crosshair.tracers import NoTracing
    from selpick import pick_all
    b = pick_all(a)
    with NoTracing():
        return _history(*b)


def history(s0: int, src: int, af: int, rf: int, change: int, warm: bool) -> Optional[str]:
    """
    pre: 0 <= s0 < NCODES and 0 <= src < 4 and 0 <= af < len(ASSOC_F) and 0 <= rf < len(RESULT_F) and 0 <= change < 5
    pre: (change * 4 + src) % NPARTS == PART
    post: _ is None
    """
    return _run_h(s0, src, af, rf, change, warm)


def history_reach(s0: int, src: int, af: int, rf: int, change: int, warm: bool) -> bool:
    """
    pre: 0 <= s0 < NCODES and 0 <= src < 4 and 0 <= af < len(ASSOC_F) and 0 <= rf < len(RESULT_F) and 0 <= change < 5
    pre: (change * 4 + src) % NPARTS == PART
    post: _
    """
    del TAGS[:]
    r = _run_h(s0, src, af, rf, change, warm)
    return not (r is None and 'checked' in TAGS and warm)
