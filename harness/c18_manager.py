"""C18-H2/H3 (E1): subscription-manager bookkeeping on the real mock server.

scenario(): two managers with different IDs work on one mock server with the subscription
providers; a selector-driven script of add/remove calls (owned or permanent, single path or
list, same or different listener URL, duplicate adds, removal while referenced) is run with
manager A; afterwards
  * A's owned lists equal the owned instances A created that are present in the server,
  * a fresh manager with A's ID rediscovers exactly that set, B never sees A's instances,
  * remove_server() deletes exactly A's owned instances; permanent and B's instances stay,
  * refused calls leave lists and server unchanged.
"""
import warnings
warnings.simplefilter('ignore')
from typing import Optional
from verifpw import kf, mode
from verifpw.e2.c18_mock import make_server, INTEROP
import pywbem
from pywbem import WBEMSubscriptionManager, CIMError, Error

PART, NPARTS = mode.part()
TAGS = []
URL1, URL2 = 'http://lst1:5000', 'http://lst2:5000'
Q = 'SELECT * FROM CIM_Indication'


def paths(insts):
    return sorted(str(i.path) for i in insts)


def server_paths(server, cls):
    return sorted(str(p) for p in server.conn.EnumerateInstanceNames(cls, namespace=INTEROP))


def _scenario(b_same_url: bool, a_dest_owned: bool, a_two_dests: bool, a_filter_owned: bool, sub_owned: bool, sub_list: int,
              dup: bool, rem: int):
    if kf.skip('c18_manager:scenario', b_same_url=b_same_url, a_dest_owned=a_dest_owned, a_two_dests=a_two_dests, a_filter_owned=a_filter_owned,
               sub_owned=sub_owned, sub_list=sub_list, dup=dup, rem=rem):
        return None
    server = make_server()
    conn = server.conn
    # foreign manager B and a permanent destination/filter created by someone else
    mb = WBEMSubscriptionManager(subscription_manager_id='mgrB')
    sb = mb.add_server(server)
    b_dest = mb.add_destination(sb, URL1 if b_same_url else URL2, owned=True, destination_id='d1')
    b_filt = mb.add_filter(sb, 'root/x', Q, owned=True, filter_id='f1')
    perm_dest = mb.add_destination(sb, URL1, owned=False, name='perm-dest')
    perm_filt = mb.add_filter(sb, 'root/x', Q, owned=False, name='perm-filter')
    foreign = {'CIM_ListenerDestinationCIMXML': [str(b_dest.path), str(perm_dest.path)],
               'CIM_IndicationFilter': [str(b_filt.path), str(perm_filt.path)]}
    # manager A under test
    ma = WBEMSubscriptionManager(subscription_manager_id='mgrA')
    sa = ma.add_server(server)
    own = {'dest': [], 'filt': [], 'sub': []}       # paths of instances A created as owned
    mine = {'dest': [], 'filt': [], 'sub': []}      # ... created by A as permanent
    dests = []
    d1 = ma.add_destination(sa, URL1, owned=a_dest_owned, destination_id='d1' if a_dest_owned else None, name=None if a_dest_owned else 'a-perm-d1')
    dests.append(d1)
    (own if a_dest_owned else mine)['dest'].append(str(d1.path))
    if str(d1.path) in foreign['CIM_ListenerDestinationCIMXML']:
        return 'add_destination() handed out an instance of another manager / a permanent one instead of creating its own'
    if a_two_dests:
        d2 = ma.add_destination(sa, URL2, owned=a_dest_owned, destination_id='d2' if a_dest_owned else None, name=None if a_dest_owned else 'a-perm-d2')
        dests.append(d2)
        (own if a_dest_owned else mine)['dest'].append(str(d2.path))
    if dup and a_dest_owned:
        # same listener URL under another destination ID: the existing owned destination is reused
        again = ma.add_destination(sa, URL1, owned=True, destination_id='dX')
        if str(again.path) != str(d1.path):
            return 'second add_destination() for the same URL did not reuse the owned destination'
        before_d = (server_paths(server, 'CIM_ListenerDestinationCIMXML'), paths(ma.get_owned_destinations(sa)))
        try:
            ma.add_destination(sa, URL2, owned=True, destination_id='d1')      # same Name, other URL
            return 'add_destination() with an existing Name was accepted'
        except CIMError:
            if (server_paths(server, 'CIM_ListenerDestinationCIMXML'), paths(ma.get_owned_destinations(sa))) != before_d:
                return 'refused add_destination() changed the server or the owned list'
    f1 = ma.add_filter(sa, 'root/x', Q, owned=a_filter_owned, filter_id='f1' if a_filter_owned else None, name=None if a_filter_owned else 'a-perm-f1')
    (own if a_filter_owned else mine)['filt'].append(str(f1.path))
    # subscription(s)
    if sub_list == 0:
        dp = dests[0].path
    elif sub_list == 1:
        dp = [d.path for d in dests]
    else:
        dp = None if a_dest_owned else [d.path for d in dests]     # None = all owned destinations
    must_refuse = (not sub_owned) and (a_filter_owned or a_dest_owned)
    before = (server_paths(server, 'CIM_IndicationSubscription'), paths(ma.get_owned_subscriptions(sa)))
    try:
        subs = ma.add_subscriptions(sa, f1.path, dp, owned=sub_owned)
        if must_refuse:
            return 'permanent subscription on an owned filter/destination was not refused'
        for s in subs:
            (own if sub_owned else mine)['sub'].append(str(s.path))
    except ValueError:
        if not must_refuse:
            return 'add_subscriptions() refused a legal call'
        subs = []
        if (server_paths(server, 'CIM_IndicationSubscription'), paths(ma.get_owned_subscriptions(sa))) != before:
            return 'refused add_subscriptions() changed the server or the owned list'
    TAGS.append('subscribed')
    # removal step
    if rem == 1:
        try:
            ma.remove_filter(sa, f1.path)
            if subs:
                return 'a filter still referenced by a subscription was removed'
            for k in ('filt',):
                own[k] = [p for p in own[k] if p != str(f1.path)]
                mine[k] = [p for p in mine[k] if p != str(f1.path)]
        except CIMError:
            if not subs:
                return 'remove_filter() of an unreferenced filter failed'
    elif rem == 2:
        try:
            ma.remove_destinations(sa, [d.path for d in dests])
            if subs:
                return 'a destination still referenced by a subscription was removed'
            own['dest'] = []
            mine['dest'] = []
        except CIMError:
            if not subs:
                return 'remove_destinations() of unreferenced destinations failed'
    elif rem == 3 and subs:
        ma.remove_subscriptions(sa, [s.path for s in subs])
        own['sub'] = []
        mine['sub'] = []
    # ---- bookkeeping equals reality
    for kind, cls, getter in (('dest', 'CIM_ListenerDestinationCIMXML', ma.get_owned_destinations), ('filt', 'CIM_IndicationFilter', ma.get_owned_filters),
                              ('sub', 'CIM_IndicationSubscription', ma.get_owned_subscriptions)):
        present = server_paths(server, cls)
        want = sorted(p for p in own[kind] if p in present)
        got = paths(getter(sa))
        if got != want:
            return 'owned %s list %d entries, owned instances present in the server %d' % (kind, len(got), len(want))
    # ---- B does not see A's instances
    for p in paths(mb.get_owned_destinations(sb)) + paths(mb.get_owned_filters(sb)) + paths(mb.get_owned_subscriptions(sb)):
        if p in own['dest'] + own['filt'] + own['sub'] + mine['dest'] + mine['filt'] + mine['sub']:
            return 'manager mgrB lists an instance of mgrA as owned'
    # ---- a restarted manager with the same ID rediscovers exactly the owned set
    ma2 = WBEMSubscriptionManager(subscription_manager_id='mgrA')
    sa2 = ma2.add_server(server)
    for kind, getter1, getter2 in (('dest', ma.get_owned_destinations, ma2.get_owned_destinations), ('filt', ma.get_owned_filters, ma2.get_owned_filters),
                                   ('sub', ma.get_owned_subscriptions, ma2.get_owned_subscriptions)):
        if paths(getter1(sa)) != paths(getter2(sa2)) and kind == 'sub' and kf.skip(
                'c18_manager:scenario:rediscover', owned_sub_on_permanent=(sub_owned and not a_dest_owned and not a_filter_owned)):
            continue
        if paths(getter1(sa)) != paths(getter2(sa2)):
            return 'a new manager with the same ID rediscovers a different owned %s set' % kind
    # ---- remove_server deletes exactly the owned instances
    all_before = dict((cls, server_paths(server, cls)) for cls in ('CIM_ListenerDestinationCIMXML', 'CIM_IndicationFilter', 'CIM_IndicationSubscription'))
    owned_now = set(paths(ma.get_owned_destinations(sa)) + paths(ma.get_owned_filters(sa)) + paths(ma.get_owned_subscriptions(sa)))
    ma.remove_server(sa)
    for cls in all_before:
        after = server_paths(server, cls)
        want = sorted(p for p in all_before[cls] if p not in owned_now)
        if after != want:
            return 'remove_server() left %d %s instances, expected %d (owned ones deleted, permanent/foreign ones kept)' % (len(after), cls, len(want))
    for cls, ps in foreign.items():
        left = server_paths(server, cls)
        for p in ps:
            if p not in left:
                return 'remove_server() deleted a foreign or permanent instance'
    TAGS.append('checked')
    return None


def _run(*a):
    if mode.REPLAY:
        return _scenario(*a)
    from crosshair.core import realize
    from crosshair.tracers import NoTracing
    from selpick import pick_all
    b = pick_all(a)
    with NoTracing():
        return _scenario(*b)


def scenario(b_same_url: bool, a_dest_owned: bool, a_two_dests: bool, a_filter_owned: bool, sub_owned: bool, sub_list: int,
             dup: bool, rem: int) -> Optional[str]:
    """
    pre: 0 <= sub_list <= 2 and 0 <= rem <= 3
    pre: (rem * 3 + sub_list) % NPARTS == PART
    post: _ is None
    """
    return _run(b_same_url, a_dest_owned, a_two_dests, a_filter_owned, sub_owned, sub_list, dup, rem)


def scenario_reach(b_same_url: bool, a_dest_owned: bool, a_two_dests: bool, a_filter_owned: bool, sub_owned: bool, sub_list: int,
                   dup: bool, rem: int) -> bool:
    """
    pre: 0 <= sub_list <= 2 and 0 <= rem <= 3
    pre: (rem * 3 + sub_list) % NPARTS == PART
    post: _
    """
    del TAGS[:]
    r = _run(b_same_url, a_dest_owned, a_two_dests, a_filter_owned, sub_owned, sub_list, dup, rem)
    return not (r is None and 'checked' in TAGS)
