"""C17 harness (E1): the listener answers any POST with exactly one well-formed response.

post(): the real ListenerRequestHandler.do_POST runs on a handler object created without a
socket; header values are symbolic strings (each present or absent), the body comes from a
pool of valid / mutated export requests (parsed by expat, hence concrete), the listener
queue may be full.  BaseHTTPRequestHandler.send_response/send_header/end_headers and wfile
are recording stubs.
"""
import warnings
warnings.simplefilter('ignore')
import io
import logging
import queue
from typing import Optional
from verifpw import kf, mode
import pywbem
from pywbem import CIMInstance
from pywbem._listener import ListenerRequestHandler
import pywbem._listener as lm
import pywbem._cim_xml as cx

if not mode.REPLAY:
    lm._format = lambda *a, **k: 'msg'
PART, NPARTS = mode.part()
TAGS = []


def export_body(msgid='42', method='ExportIndication', pname='NewIndication', inst=True, extra=False, cimver='2.0', dtdver='2.0', proto='1.0'):
    params = []
    if pname is not None:
        params.append(cx.EXPPARAMVALUE(pname, CIMInstance('CIM_AlertIndication', properties={'Desc': 'd<&>é'}).tocimxml() if inst else None))
    if extra:
        params.append(cx.EXPPARAMVALUE('Other', CIMInstance('X').tocimxml()))
    dom = cx.CIM(cx.MESSAGE(cx.SIMPLEEXPREQ(cx.EXPMETHODCALL(method, params)), msgid, proto), cimver, dtdver)
    return ('<?xml version="1.0" encoding="utf-8" ?>\n' + dom.toxml()).encode('utf-8')


OK = export_body()
BODIES = [
    OK,                                                     # 0 valid
    export_body(msgid='ind-événement-7'),          # 1 valid, non-ASCII message id
    b'<CIM',                                                # 2 ill-formed XML
    b'',                                                    # 3 empty
    b'\xff\xfe<CIM/>',                                      # 4 invalid UTF-8
    export_body(method='Foo'),                              # 5 unknown export method
    export_body(pname='Wrong'),                             # 6 wrong parameter name
    export_body(inst=False),                                # 7 NewIndication without instance
    export_body(extra=True),                                # 8 two parameters
    export_body(pname=None),                                # 9 no parameter
    export_body(cimver='3.0'),                              # 10 unsupported CIM version
    export_body(dtdver='1.0'),                              # 11 unsupported DTD version
    export_body(proto='2.0'),                               # 12 unsupported protocol version
    OK.replace(b'SIMPLEEXPREQ', b'SIMPLEREQ'),              # 13 wrong element
    OK.replace(b'<CIM ', b'<CIM\nX="1" '),                  # 14 undeclared attribute (multi-line error text)
    export_body(method='Méthode'),                     # 15 unknown non-ASCII method
]
CTYPES = [None, 'text/xml', 'application/xml; charset=utf-8', 'text/html', 'application/xml;charset="UTF-8"', 'text/xml; charset=latin-1']


class Lst:
    def __init__(self, full):
        self.logger = logging.getLogger('verif.c17')
        self.logger.disabled = True
        self.got = []
        self.max_ind_queue_size = 1
        self.full = full

    def _handle_indication(self, ind, host, msgid):
        if self.full:
            raise queue.Full()
        self.got.append((ind, msgid))


class Srv:
    pass


class H(ListenerRequestHandler):
    def __init__(self, lst, hdrs, body):
        self.rec = []
        self.server = Srv()
        self.server.listener = lst
        self.client_address = ('1.2.3.4', 1)
        self.headers = hdrs
        self.rfile = io.BytesIO(body)
        self.wfile = io.BytesIO()
        self.command = 'POST'
        self.path = '/'
        self.request_version = 'HTTP/1.1'

    def send_response(self, code, message=None):
        self.rec.append(('status', code))

    def send_header(self, k, v):
        self.rec.append(('hdr', k, v))

    def end_headers(self):
        self.rec.append(('end',))


def check_response(h, lst, body_sel, full):
    st = [r[1] for r in h.rec if r[0] == 'status']
    if len(st) != 1:
        return 'request answered with %d status lines' % len(st)
    if len([r for r in h.rec if r[0] == 'end']) != 1:
        return 'header block not terminated exactly once'
    for r in h.rec:
        if r[0] == 'hdr':
            v = str(r[2])
            if '\n' in v or '\r' in v:
                if kf.skip('c17_listener_http:post:crlf', header=r[1]):
                    continue
                return 'header %s carries a raw CR/LF' % r[1]
    code = st[0]
    out = h.wfile.getvalue()
    if code == 200:
        cl = [r[2] for r in h.rec if r[0] == 'hdr' and r[1] == 'Content-Length']
        if len(cl) != 1 or int(cl[0]) != len(out):
            return 'Content-Length %r does not match the %d body bytes' % (cl, len(out))
        try:
            from pywbem._tupletree import xml_to_tupletree_sax
            tt = xml_to_tupletree_sax(out, 'listener response')
            rsp = tt[2][0][2][0][2][0]
        except Exception as e:          # noqa
            return '200 response body is not a CIM-XML export response (%s)' % type(e).__name__
        if rsp[0] != 'EXPMETHODRESPONSE':
            return '200 response without EXPMETHODRESPONSE'
        is_err = any(k[0] == 'ERROR' for k in rsp[2] if not isinstance(k, str))
        valid = body_sel in (0, 1)
        if body_sel < 0:
            # Content-Length does not describe the body: the handler saw some prefix; only the
            # structural obligations above apply, plus "ERROR => not delivered"
            if is_err and lst.got:
                return 'refused request was nevertheless delivered'
        elif valid and not full:
            if is_err or len(lst.got) != 1 or not isinstance(lst.got[0][0], CIMInstance):
                return 'valid indication not delivered exactly once / answered with ERROR'
        else:
            if not is_err:
                return 'request that must be refused was answered with a success response'
            if lst.got:
                return 'refused request was nevertheless delivered'
        TAGS.append('200')
    else:
        if not (400 <= code <= 599):
            return 'status %d' % code
        if lst.got:
            return 'rejected request was nevertheless delivered'
        if not any(r[0] == 'hdr' and r[1] == 'CIMError' for r in h.rec):
            return '%d response without CIMError header' % code
        TAGS.append('4xx')
    return None


def _post(body: int, acc: Optional[str], acs: Optional[str], arange: Optional[str], ct: int, cts: str, cenc: Optional[str],
          clen: Optional[str], exact_len: bool, full: bool):
    if kf.skip('c17_listener_http:post', body=body, acc=acc, acs=acs, arange=arange, ct=ct, cts=cts, cenc=cenc, clen=clen, exact_len=exact_len, full=full):
        return None
    hdrs = {}
    if acc is not None:
        hdrs['Accept'] = acc
    if acs is not None:
        hdrs['Accept-Charset'] = acs
    if arange is not None:
        hdrs['Accept-Range'] = arange
    if CTYPES[ct] is not None:
        hdrs['Content-Type'] = CTYPES[ct] + cts
    if cenc is not None:
        hdrs['Content-Encoding'] = cenc
    data = BODIES[body]
    if exact_len:
        hdrs['Content-Length'] = str(len(data))
    elif clen is not None:
        hdrs['Content-Length'] = clen
    lst = Lst(full)
    h = H(lst, hdrs, data)
    try:
        h.do_POST()
    except Exception as e:          # noqa: any escaping exception = dropped connection
        return 'do_POST let %s escape (connection dropped without a response)' % type(e).__name__
    return check_response(h, lst, body if (exact_len or clen is None) else -1, full)


def post(body: int, acc: Optional[str], acs: Optional[str], arange: Optional[str], ct: int, cts: str, cenc: Optional[str],
         clen: Optional[str], exact_len: bool, full: bool) -> Optional[str]:
    """
    pre: 0 <= body < len(BODIES) and 0 <= ct < len(CTYPES) and body % NPARTS == PART
    pre: acc is None or len(acc) <= SMAX
    pre: acs is None or len(acs) <= SMAX
    pre: arange is None or len(arange) <= 1
    pre: len(cts) <= 1
    pre: cenc is None or len(cenc) <= SMAX
    pre: clen is None or len(clen) <= SMAX
    post: _ is None
    """
    return _post(body, acc, acs, arange, ct, cts, cenc, clen, exact_len, full)


SMAX = 2 if mode.tier() == 'quick' else 4


def post_reach(body: int, acc: Optional[str], acs: Optional[str], arange: Optional[str], ct: int, cts: str, cenc: Optional[str],
               clen: Optional[str], exact_len: bool, full: bool) -> bool:
    """
    pre: 0 <= body < len(BODIES) and 0 <= ct < len(CTYPES) and body % NPARTS == PART
    pre: acc is None or len(acc) <= SMAX
    pre: acs is None or len(acs) <= SMAX
    pre: arange is None or len(arange) <= 1
    pre: len(cts) <= 1
    pre: cenc is None or len(cenc) <= SMAX
    pre: clen is None or len(clen) <= SMAX
    post: _
    """
    del TAGS[:]
    r = _post(body, acc, acs, arange, ct, cts, cenc, clen, exact_len, full)
    return not (r is None and ('200' in TAGS))


# ------------------------------------------------------------------ other verbs
def _verb(v: int):
    lst = Lst(False)
    h = H(lst, {}, b'')
    name = ['GET', 'PUT', 'DELETE', 'HEAD', 'OPTIONS', 'TRACE', 'CONNECT', 'M_POST', 'PATCH'][v]
    h.command = name
    m = getattr(h, 'do_' + name, None)
    if m is None:
        return None            # http.server answers 501 itself for verbs without a do_ method
    try:
        m()
    except Exception as e:      # noqa
        return 'do_%s let %s escape' % (name, type(e).__name__)
    st = [r[1] for r in h.rec if r[0] == 'status']
    if st != [405]:
        return '%s answered with %r instead of 405' % (name, st)
    if not any(r[0] == 'hdr' and r[1] == 'Allow' for r in h.rec):
        return '%s: 405 without Allow header' % name
    TAGS.append('405')
    return None


def verb(v: int) -> Optional[str]:
    """
    pre: 0 <= v <= 8
    post: _ is None
    """
    return _verb(v)


def verb_reach(v: int) -> bool:
    """
    pre: 0 <= v <= 8
    post: _
    """
    del TAGS[:]
    r = _verb(v)
    return not (r is None and '405' in TAGS)
