"""C12 harness (E1): class inheritance resolution and hierarchy queries on the mock server.

hierarchy(): a class forest is generated from symbolic selectors (parent index per class,
which properties/methods each class introduces or overrides, qualifier values), created
through MOF compilation or CreateClass in a selector-chosen order; GetClass /
EnumerateClasses / EnumerateClassNames / EnumerateInstances / DeleteClass results are
compared with a small reference resolver written from the property text.
"""
import warnings
warnings.simplefilter('ignore')
import pickle
from typing import Optional
from verifpw import kf, mode
import pywbem
import pywbem_mock
from pywbem import CIMError, Error, CIMClass, CIMProperty, CIMMethod, CIMParameter, CIMQualifier, CIMInstance, CIMInstanceName, Uint32

PART, NPARTS = mode.part()
TAGS = []
QUALS = '''
Qualifier Key : boolean = false, Scope(property, reference), Flavor(DisableOverride, ToSubclass);
Qualifier Override : string = null, Scope(property, method, reference), Flavor(EnableOverride, Restricted);
Qualifier Description : string = null, Scope(any), Flavor(EnableOverride, ToSubclass, Translatable);
Qualifier Local : string = null, Scope(any), Flavor(EnableOverride, Restricted);
Qualifier Fixed : string = null, Scope(any), Flavor(DisableOverride, ToSubclass);
'''
NAMES = ['C0', 'C1', 'C2', 'C3', 'C4']
# forests over 5 classes: parent index per class (-1 = root); index must be < class index
FORESTS = [[-1, 0, 1, 2, 3], [-1, 0, 0, 1, 1], [-1, 0, 1, 1, -1], [-1, -1, 0, 0, 2], [-1, 0, 1, 0, 3], [-1, 0, 0, 0, 0]]


CONN = pywbem_mock.FakedWBEMConnection(default_namespace='root/a')
CONN.compile_mof_string(QUALS, namespace='root/a')
REPO0 = pickle.dumps(CONN.cimrepository)


def ancestors(forest, i):
    out = []
    while forest[i] >= 0:
        i = forest[i]
        out.append(i)
    return out            # nearest first


def subtree(forest, i):
    out = [i]
    for j in range(len(forest)):
        if i in ancestors(forest, j):
            out.append(j)
    return sorted(out)


def children(forest, i):
    return [j for j in range(len(forest)) if forest[j] == i]


def plan(forest, ovr, qsel):
    """Per class: list of (propname, overrides?, qualifiers dict) and methods.
    Class i introduces property P<i> (C0 also the key K).  Bit i of `ovr` makes class i
    override the property introduced by its FARTHEST ancestor (two or more levels when the
    chain is long enough) with an Override qualifier; qsel picks the qualifier set."""
    spec = []
    for i in range(len(forest)):
        props = []
        if forest[i] < 0:
            props.append(('K', False, {'Key': True}))
        q = {}
        if qsel % 4 == 1:
            q = {'Description': 'd%d' % i}
        elif qsel % 4 == 2:
            q = {'Local': 'l%d' % i}
        elif qsel % 4 == 3:
            q = {'Description': 'd%d' % i, 'Fixed': 'fx'}
        props.append(('P%d' % i, False, q))
        anc = ancestors(forest, i)
        if anc and (ovr >> i) & 1:
            top = anc[-1]
            oq = {'Override': 'P%d' % top}
            if qsel // 4 == 1:
                oq['Description'] = 'over%d' % i
            props.append(('P%d' % top, True, oq))
        meths = [('M%d' % i, False)]
        if anc and (ovr >> (i + 5)) & 1:
            meths.append(('M%d' % anc[-1], True))
        spec.append((props, meths))
    return spec


def mof_of(i, forest, spec):
    props, meths = spec[i]
    lines = []
    for name, ov, q in props:
        qs = ', '.join(('%s' % k) if v is True else ('%s("%s")' % (k, v)) for k, v in q.items())
        lines.append('  %sstring %s;' % (('[%s] ' % qs) if qs else '', name))
    for name, ov in meths:
        lines.append('  %suint32 %s([Description("pd")] string Par);' % ('[Override("%s")] ' % name if ov else '', name))
    sup = (' : %s' % NAMES[forest[i]]) if forest[i] >= 0 else ''
    return 'class %s%s {\n%s\n};\n' % (NAMES[i], sup, '\n'.join(lines))


def obj_of(i, forest, spec):
    props, meths = spec[i]
    ps = [CIMProperty(name, None, type='string', qualifiers=[CIMQualifier(k, v) for k, v in q.items()]) for name, ov, q in props]
    ms = [CIMMethod(name, 'uint32', parameters=[CIMParameter('Par', 'string', qualifiers=[CIMQualifier('Description', 'pd')])],
                    qualifiers=[CIMQualifier('Override', name)] if ov else []) for name, ov in meths]
    return CIMClass(NAMES[i], properties=ps, methods=ms, superclass=NAMES[forest[i]] if forest[i] >= 0 else None)


def _hierarchy(fsel: int, ovr: int, qsel: int, how: int, tgt: int, lo: Optional[bool], iq: Optional[bool], ico: Optional[bool],
               plsel: int, deep: Optional[bool], dele: int):
    if kf.skip('c12_classes:hierarchy', fsel=fsel, ovr=ovr, qsel=qsel, how=how, tgt=tgt, lo=lo, iq=iq, ico=ico, plsel=plsel, deep=deep, dele=dele):
        return None
    forest = FORESTS[fsel]
    n = len(forest)
    spec = plan(forest, ovr, qsel)
    conn = CONN
    conn.cimrepository.load(pickle.loads(REPO0))       # fresh repository holding only the qualifier declarations
    try:
        if how == 0:
            conn.compile_mof_string(''.join(mof_of(i, forest, spec) for i in range(n)), namespace='root/a')
        elif how == 1:
            for i in range(n):
                conn.CreateClass(obj_of(i, forest, spec))
        else:
            # siblings in reverse order where the hierarchy allows it (every order the server accepts)
            order = sorted(range(n), key=lambda i: (len(ancestors(forest, i)), -i))
            for i in order:
                conn.CreateClass(obj_of(i, forest, spec))
    except Error as e:
        return 'valid hierarchy rejected: %s' % type(e).__name__
    TAGS.append('built')
    # instances: one per class (key K comes from the root of each tree)
    for i in range(n):
        conn.CreateInstance(CIMInstance(NAMES[i], properties={'K': 'k%d' % i}))
    # ---- reference resolver
    chain = [tgt] + ancestors(forest, tgt)                 # nearest first
    introduced = {}                                          # element name -> introducing class index
    for c in reversed(chain):
        for name, ov, q in spec[c][0]:
            introduced.setdefault(name, c)
        for name, ov in spec[c][1]:
            introduced.setdefault('m:' + name, c)
    own_props = set(name for name, ov, q in spec[tgt][0])
    own_meths = set(name for name, ov in spec[tgt][1])
    all_props = sorted(k for k in introduced if not k.startswith('m:'))
    all_meths = sorted(k[2:] for k in introduced if k.startswith('m:'))
    # ---- GetClass(LocalOnly=False) full view
    full = conn.GetClass(NAMES[tgt], LocalOnly=False, IncludeQualifiers=True, IncludeClassOrigin=True)
    if sorted(full.properties.keys()) != all_props:
        return 'GetClass(%s): exposed properties %s instead of %s' % (NAMES[tgt], sorted(full.properties.keys()), all_props)
    if sorted(full.methods.keys()) != all_meths:
        return 'GetClass(%s): exposed methods %s instead of %s' % (NAMES[tgt], sorted(full.methods.keys()), all_meths)
    for p in all_props:
        el = full.properties[p]
        if (el.class_origin or '').lower() != NAMES[introduced[p]].lower():
            return 'GetClass(%s): class_origin of %s is %r, first introduced by %s' % (NAMES[tgt], p, el.class_origin, NAMES[introduced[p]])
        if p not in own_props and el.propagated is not True:
            return 'GetClass(%s): inherited property %s is not marked propagated' % (NAMES[tgt], p)
        if p in own_props and introduced[p] == tgt and el.propagated is not False:
            return 'GetClass(%s): newly introduced property %s is marked propagated' % (NAMES[tgt], p)
    for m in all_meths:
        el = full.methods[m]
        if (el.class_origin or '').lower() != NAMES[introduced['m:' + m]].lower():
            return 'GetClass(%s): class_origin of method %s is %r, first introduced by %s' % (NAMES[tgt], m, el.class_origin, NAMES[introduced['m:' + m]])
        if m not in own_meths and el.propagated is not True:
            return 'GetClass(%s): inherited method %s is not marked propagated' % (NAMES[tgt], m)
        if m in own_meths and introduced['m:' + m] == tgt and el.propagated is not False:
            return 'GetClass(%s): newly introduced method %s is marked propagated' % (NAMES[tgt], m)
    # qualifier propagation on the introducing class's property as seen from tgt
    for p in all_props:
        if p == 'K':
            continue
        src = introduced[p]
        decl_q = dict(next(q for name, ov, q in spec[src][0] if name == p))
        nearest = next(c for c in chain if any(name == p for name, ov, q in spec[c][0]))
        near_q = dict(next(q for name, ov, q in spec[nearest][0] if name == p))
        quals = full.properties[p].qualifiers
        if 'Description' in decl_q or 'Description' in near_q:
            want = near_q.get('Description', decl_q.get('Description'))
            if 'Description' not in quals or quals['Description'].value != want:
                return 'GetClass(%s): ToSubclass qualifier Description on %s is %r, nearest declaration says %r' % (
                    NAMES[tgt], p, quals['Description'].value if 'Description' in quals else None, want)
        if 'Fixed' in decl_q and ('Fixed' not in quals or quals['Fixed'].value != 'fx'):
            return 'GetClass(%s): ToSubclass/DisableOverride qualifier Fixed lost on %s' % (NAMES[tgt], p)
        if 'Local' in decl_q and src != tgt and nearest != tgt and 'Local' in quals and kf_local():
            return 'GetClass(%s): Restricted qualifier Local of %s propagated to the subclass' % (NAMES[tgt], p)
    # ---- request flags only remove information
    pl = [None, ['P%d' % tgt], ['k'], [], ['P0', 'Nope']][plsel]
    view = conn.GetClass(NAMES[tgt], LocalOnly=lo, IncludeQualifiers=iq, IncludeClassOrigin=ico, PropertyList=pl)
    lo_eff = True if lo is None else lo          # DSP0200 default of GetClass.LocalOnly is true
    for p, el in view.properties.items():
        if p not in full.properties:
            return 'GetClass flags added property %s' % p
        if pl is not None and p.lower() not in [x.lower() for x in pl]:
            return 'GetClass PropertyList did not remove property %s' % p
        if ico is not True and el.class_origin is not None and ico is False:
            return 'GetClass IncludeClassOrigin=False kept class_origin'
        if iq is False and len(el.qualifiers):
            return 'GetClass IncludeQualifiers=False kept qualifiers'
        if el.type != full.properties[p].type:
            return 'GetClass flags changed a property'
    if lo_eff is True:
        for p in view.properties:
            if p not in own_props:
                return 'GetClass LocalOnly=True kept the inherited property %s' % p
        for m in view.methods:
            if m not in own_meths:
                return 'GetClass LocalOnly=True kept the inherited method %s' % m
    if lo_eff is not True and pl is None and sorted(view.properties.keys()) != all_props:
        return 'GetClass without LocalOnly/PropertyList lost properties'
    if pl is not None and lo_eff is not True:
        # (with LocalOnly=True the property text only demands that information is removed, see the subset checks above)
        want_pl = sorted(p for p in all_props if p.lower() in [x.lower() for x in pl])
        if sorted(view.properties.keys()) != want_pl:
            return 'GetClass PropertyList=%r returned %s instead of %s' % (pl, sorted(view.properties.keys()), want_pl)
    # ---- hierarchy queries
    got = sorted(c.classname for c in conn.EnumerateClasses(ClassName=NAMES[tgt], DeepInheritance=deep))
    gotn = sorted(conn.EnumerateClassNames(ClassName=NAMES[tgt], DeepInheritance=deep))
    want = sorted(NAMES[j] for j in (subtree(forest, tgt) if deep else children(forest, tgt)) if j != tgt)
    if got != want or gotn != want:
        return 'EnumerateClasses/Names(%s, DeepInheritance=%r) returned %s / %s instead of %s' % (NAMES[tgt], deep, got, gotn, want)
    top = sorted(conn.EnumerateClassNames(DeepInheritance=deep))
    want_top = sorted(NAMES[j] for j in range(n) if deep or forest[j] < 0)
    if top != want_top:
        return 'EnumerateClassNames(DeepInheritance=%r) returned %s instead of %s' % (deep, top, want_top)
    insts = sorted(i.classname for i in conn.EnumerateInstances(NAMES[tgt]))
    want_i = sorted(NAMES[j] for j in subtree(forest, tgt))
    if insts != want_i:
        return 'EnumerateInstances(%s) returned instances of %s instead of %s' % (NAMES[tgt], insts, want_i)
    names_i = sorted(p.classname for p in conn.EnumerateInstanceNames(NAMES[tgt]))
    if names_i != want_i:
        return 'EnumerateInstanceNames(%s) returned %s instead of %s' % (NAMES[tgt], names_i, want_i)
    # ---- DeleteClass removes exactly the subtree and its instances
    if dele:
        gone = subtree(forest, tgt)
        if dele == 1 and len(gone) > 1:
            try:
                conn.DeleteClass(NAMES[tgt])
                deleted = True
            except CIMError:
                deleted = False             # a server may refuse to delete a class that has subclasses
        else:
            conn.DeleteClass(NAMES[tgt])
            deleted = True
        if deleted:
            left = sorted(c.classname for c in conn.cimrepository.get_class_store('root/a').iter_values())
            want_left = sorted(NAMES[j] for j in range(n) if j not in gone)
            if left != want_left:
                return 'DeleteClass(%s) left classes %s instead of %s' % (NAMES[tgt], left, want_left)
            left_i = sorted(i.classname for i in conn.cimrepository.get_instance_store('root/a').iter_values())
            if left_i != want_left:
                return 'DeleteClass(%s) left instances of %s instead of %s' % (NAMES[tgt], left_i, want_left)
    TAGS.append('checked')
    return None


def kf_local():
    return not kf.skip('c12_classes:hierarchy:restricted', restricted_propagated=True)


def _run(*a):
    if mode.REPLAY:
        return _hierarchy(*a)
    from crosshair.core import realize
    from crosshair.tracers import NoTracing
    from selpick import pick_all
    b = pick_all(a)
    with NoTracing():
        return _hierarchy(*b)


def hierarchy(fsel: int, ovr: int, qsel: int, how: int, tgt: int, lo: Optional[bool], iq: Optional[bool], ico: Optional[bool],
              plsel: int, deep: Optional[bool], dele: int) -> Optional[str]:
    """
    pre: 0 <= fsel < len(FORESTS) and 0 <= ovr < 1024 and 0 <= qsel < 8 and 0 <= how <= 2 and 0 <= tgt < 5
    pre: 0 <= plsel <= 4 and 0 <= dele <= 2
    pre: (fsel * 5 + tgt) % NPARTS == PART
    post: _ is None
    """
    return _run(fsel, ovr, qsel, how, tgt, lo, iq, ico, plsel, deep, dele)


def hierarchy_reach(fsel: int, ovr: int, qsel: int, how: int, tgt: int, lo: Optional[bool], iq: Optional[bool], ico: Optional[bool],
                    plsel: int, deep: Optional[bool], dele: int) -> bool:
    """
    pre: 0 <= fsel < len(FORESTS) and 0 <= ovr < 1024 and 0 <= qsel < 8 and 0 <= how <= 2 and 0 <= tgt < 5
    pre: 0 <= plsel <= 4 and 0 <= dele <= 2
    pre: (fsel * 5 + tgt) % NPARTS == PART
    post: _
    """
    del TAGS[:]
    r = _run(fsel, ovr, qsel, how, tgt, lo, iq, ico, plsel, deep, dele)
    return not (r is None and 'checked' in TAGS)
