"""C05 harnesses (E1): equality / hash / copy laws of CIM objects.

variant(): two objects of one kind that are identical except ONE attribute (selected by a
symbolic index into the kind's attribute table, values symbolic) and optionally a reversed
child order.  The expected equality follows the property text: names, host, namespace
compare case-insensitively, child order is irrelevant, every other attribute is
distinguished.  Laws: e == expected, symmetry, != is the negation, reflexivity,
a == b => hash(a) == hash(b), transitivity through a case-flipped third object.

copyind(): copy()/copy.copy/deepcopy/pickle yield an equal object; a single symbolic
mutation of the copy leaves the original equal to a pristine twin.
"""
import warnings
warnings.simplefilter('ignore')
import copy as _copy
import pickle
from typing import Optional
from verifpw import kf, mode
import pywbem
from pywbem import (CIMInstanceName, CIMClassName, CIMInstance, CIMClass, CIMProperty, CIMMethod, CIMParameter,
                    CIMQualifier, CIMQualifierDeclaration, CIMDateTime, Uint8)
from pywbem._nocasedict import NocaseDict
import pywbem._cim_obj as com

if not mode.REPLAY:
    com._format = lambda *a, **k: 'msg'
PART, NPARTS = mode.part()
TAGS = []

# attribute categories: 'name' = CIM name (case-insensitive, may be None where noted),
# 'str' = exact string, 'bool' / 'int' = Optional exact, 'pool:<x>' = value from a concrete pool
KINDS = {
    'CIMInstanceName': [('classname', 'name1'), ('host', 'name'), ('namespace', 'name'), ('keyname', 'name1'), ('keyvalue', 'str'),
                        ('keyint', 'pool:ints')],
    'CIMClassName': [('classname', 'name1'), ('host', 'name'), ('namespace', 'name')],
    'CIMProperty': [('name', 'name1'), ('value', 'str'), ('class_origin', 'name'), ('array_size', 'int'), ('propagated', 'bool'),
                    ('reference_class', 'name'), ('qualname', 'name1'), ('qualvalue', 'str'), ('type', 'pool:ptypes'), ('embedded_object', 'pool:eo')],
    'CIMQualifier': [('name', 'name1'), ('value', 'str'), ('propagated', 'bool'), ('overridable', 'bool'), ('tosubclass', 'bool'),
                     ('toinstance', 'bool'), ('translatable', 'bool'), ('type', 'pool:qtypes')],
    'CIMParameter': [('name', 'name1'), ('type', 'pool:types'), ('reference_class', 'name'), ('is_array', 'bool'), ('array_size', 'int'),
                     ('value', 'str'), ('qualname', 'name1'), ('qualvalue', 'str'), ('embedded_object', 'pool:eo')],
    'CIMMethod': [('name', 'name1'), ('return_type', 'pool:types'), ('class_origin', 'name'), ('propagated', 'bool'),
                  ('paramname', 'name1'), ('paramtype', 'pool:types'), ('qualname', 'name1'), ('qualvalue', 'str')],
    'CIMInstance': [('classname', 'name1'), ('propname', 'name1'), ('propvalue', 'str'), ('qualname', 'name1'), ('qualvalue', 'str'),
                    ('pathclass', 'name1'), ('pathns', 'name'), ('haspath', 'pool:flag')],
    'CIMClass': [('classname', 'name1'), ('superclass', 'name'), ('propname', 'name1'), ('propvalue', 'str'), ('methname', 'name1'),
                 ('qualname', 'name1'), ('qualvalue', 'str'), ('pathns', 'name'), ('haspath', 'pool:flag')],
    'CIMQualifierDeclaration': [('name', 'name1'), ('type', 'pool:qtypes'), ('value', 'str'), ('is_array', 'pool:flag'), ('array_size', 'int'),
                                ('scope', 'pool:scopes'), ('overridable', 'bool'), ('tosubclass', 'bool'), ('toinstance', 'bool'),
                                ('translatable', 'bool')],
    'NocaseDict': [('key', 'name1'), ('value', 'str')],
}
KIND_NAMES = list(KINDS)
POOLS = {'ints': [1, Uint8(1), 2, '1'], 'types': ['string', 'uint8', 'boolean'], 'ptypes': ['string', 'char16'],
         'qtypes': ['string', 'char16'], 'flag': [False, True], 'scopes': ['CLASS', 'PROPERTY', 'ANY'],
         'eo': [None, 'instance', 'object']}
DEFAULTS = {'classname': 'Cls', 'host': None, 'namespace': None, 'keyname': 'Key', 'keyvalue': 'kv', 'keyint': 1, 'name': 'Nam',
            'value': 'val', 'class_origin': None, 'array_size': None, 'propagated': None, 'reference_class': None, 'qualname': 'Qual',
            'qualvalue': 'qv', 'type': 'string', 'overridable': None, 'tosubclass': None, 'toinstance': None, 'translatable': None,
            'is_array': False, 'return_type': 'uint8', 'paramname': 'Par', 'paramtype': 'string', 'propname': 'Prop', 'propvalue': 'pv',
            'pathclass': 'Cls', 'pathns': None, 'haspath': True, 'superclass': None, 'methname': 'Meth', 'scope': 'CLASS', 'key': 'Key',
            'embedded_object': None}


def build(kind, v, rev):
    """Object of `kind` from attribute dict v; rev reverses the order of every child collection."""
    def order(lst):
        return list(reversed(lst)) if rev else lst
    q2 = CIMQualifier('Zq', True)
    if kind == 'CIMInstanceName':
        kb = order([(v['keyname'], v['keyvalue']), ('Other', v['keyint'])])
        return CIMInstanceName(v['classname'], keybindings=kb, host=v['host'],
                               namespace=v['namespace'] if (v['namespace'] is not None or v['host'] is None) else 'ns')
    if kind == 'CIMClassName':
        return CIMClassName(v['classname'], host=v['host'], namespace=v['namespace'])
    if kind == 'CIMProperty':
        quals = order([CIMQualifier(v['qualname'], v['qualvalue']), q2])
        if v['reference_class'] is not None:
            return CIMProperty(v['name'], None, type='reference', reference_class=v['reference_class'], class_origin=v['class_origin'],
                               propagated=v['propagated'], qualifiers=quals)
        if v['embedded_object'] is not None:
            return CIMProperty(v['name'], None, type='string', embedded_object=v['embedded_object'], class_origin=v['class_origin'],
                               propagated=v['propagated'], qualifiers=quals)
        if v['array_size'] is not None:
            return CIMProperty(v['name'], [v['value']], type=v['type'], is_array=True, array_size=v['array_size'], class_origin=v['class_origin'],
                               propagated=v['propagated'], qualifiers=quals)
        return CIMProperty(v['name'], v['value'], type=v['type'], class_origin=v['class_origin'], propagated=v['propagated'], qualifiers=quals)
    if kind == 'CIMQualifier':
        return CIMQualifier(v['name'], v['value'], type=v['type'], propagated=v['propagated'], overridable=v['overridable'],
                            tosubclass=v['tosubclass'], toinstance=v['toinstance'], translatable=v['translatable'])
    if kind == 'CIMParameter':
        quals = order([CIMQualifier(v['qualname'], v['qualvalue']), q2])
        t = 'reference' if v['reference_class'] is not None else v['type']
        val = None if (t != 'string' or v['is_array'] or v['embedded_object'] is not None) else v['value']
        return CIMParameter(v['name'], t, reference_class=v['reference_class'], is_array=v['is_array'], array_size=v['array_size'],
                            qualifiers=quals, value=val, embedded_object=v['embedded_object'] if t == 'string' else None)
    if kind == 'CIMMethod':
        params = order([CIMParameter(v['paramname'], v['paramtype']), CIMParameter('Zp', 'uint8')])
        quals = order([CIMQualifier(v['qualname'], v['qualvalue']), q2])
        return CIMMethod(v['name'], return_type=v['return_type'], parameters=params, class_origin=v['class_origin'],
                         propagated=v['propagated'], qualifiers=quals)
    if kind == 'CIMInstance':
        props = order([CIMProperty(v['propname'], v['propvalue']), CIMProperty('Zp', Uint8(1))])
        quals = order([CIMQualifier(v['qualname'], v['qualvalue']), q2])
        path = CIMInstanceName(v['pathclass'], {'k': 1}, namespace=v['pathns']) if v['haspath'] else None
        return CIMInstance(v['classname'], properties=props, qualifiers=quals, path=path)
    if kind == 'CIMClass':
        props = order([CIMProperty(v['propname'], v['propvalue']), CIMProperty('Zp', Uint8(1))])
        meths = order([CIMMethod(v['methname'], 'uint8'), CIMMethod('Zm', 'string')])
        quals = order([CIMQualifier(v['qualname'], v['qualvalue']), q2])
        path = CIMClassName(v['classname'], namespace=v['pathns']) if v['haspath'] else None
        return CIMClass(v['classname'], properties=props, methods=meths, superclass=v['superclass'], qualifiers=quals, path=path)
    if kind == 'CIMQualifierDeclaration':
        arr = bool(v['is_array']) or v['array_size'] is not None
        val = [v['value']] if arr else v['value']
        return CIMQualifierDeclaration(v['name'], v['type'], value=val, is_array=arr,
                                       array_size=v['array_size'],
                                       scopes=dict(order([(v['scope'], True), ('METHOD', False)])), overridable=v['overridable'],
                                       tosubclass=v['tosubclass'], toinstance=v['toinstance'], translatable=v['translatable'])
    return NocaseDict(order([(v['key'], v['value']), ('Zk', 1)]))


NAMES = ['Abc', 'ABC', 'abc', 'Abd', 'Stra\u00dfe', 'STRASSE', '\ufb01le', 'FILE', '\u01c5x', '\u01c6X']
DONTCARE = 'dontcare'


def flip(s):
    return s if (s is None or not s.isascii()) else s.swapcase()     # lexical case of ASCII letters only


def _variant(kind: int, attr: int, s1: Optional[str], s2: Optional[str], b1: Optional[bool], b2: Optional[bool],
             i1: Optional[int], i2: Optional[int], p1: int, p2: int, rev: bool):
    kname = KIND_NAMES[kind]
    table = KINDS[kname]
    aname, cat = table[attr]
    if kf.skip('c05_laws:variant', kind=kname, attr=aname, s1=s1, s2=s2, b1=b1, b2=b2, i1=i1, i2=i2, p1=p1, p2=p2, rev=rev):
        return None
    va = dict(DEFAULTS)
    vb = dict(DEFAULTS)
    if cat in ('name', 'name1'):
        # names come from a concrete pool of case variants (symbolic lower()/swapcase() on CrossHair
        # strings costs seconds per path); None is in the pool for optional names
        pool = NAMES if cat == 'name1' else NAMES + [None]
        x, y = pool[p1 % len(pool)], pool[p2 % len(pool)]
        va[aname], vb[aname] = x, y
        if x is None or y is None:
            expected = (x is None and y is None)
        elif x.isascii() and y.isascii():
            expected = (x.lower() == y.lower())
        else:
            expected = True if x == y else DONTCARE      # non-ASCII case pairs: only the laws are demanded
    elif cat == 'str':
        if s1 is None or s2 is None:
            return None
        va[aname], vb[aname] = s1, s2
        expected = (s1 == s2)
    elif cat == 'bool':
        va[aname], vb[aname] = b1, b2
        expected = (b1 is None and b2 is None) or (b1 is not None and b2 is not None and b1 == b2)
    elif cat == 'int':
        if (i1 is not None and i1 < 0) or (i2 is not None and i2 < 0):
            return None
        va[aname], vb[aname] = i1, i2
        expected = (i1 is None and i2 is None) or (i1 is not None and i2 is not None and i1 == i2)
    else:
        pool = POOLS[cat.split(':')[1]]
        x, y = pool[p1 % len(pool)], pool[p2 % len(pool)]
        va[aname], vb[aname] = x, y
        expected = (x == y) and (type(x) is type(y) or not isinstance(x, str))
        if aname == 'keyint':
            expected = (x == y)              # int vs UintN with the same value are the same key value
        if aname == 'scope':
            expected = (x == y)
    try:
        a = build(kname, va, False)
        b = build(kname, vb, rev)
    except (TypeError, ValueError):
        return None                          # combination not constructible (e.g. host without namespace)
    TAGS.append('built')
    if cat in ('bool', 'int') and hasattr(a, aname):
        # constructors may normalise (e.g. is_array None -> False): the objects differ only if the
        # STORED public attribute differs
        x, y = getattr(a, aname), getattr(b, aname)
        expected = (x is None and y is None) or (x is not None and y is not None and x == y)
    e = (a == b)
    if expected is not DONTCARE and e != expected:
        return '%s: objects differing in %s compare %s' % (kname, aname, 'equal' if e else 'unequal')
    if (b == a) != e:
        return '%s: == is not symmetric (%s)' % (kname, aname)
    if (a != b) == e:
        return '%s: != is not the negation of == (%s)' % (kname, aname)
    if not (a == a) or (a != a):
        return '%s: == is not reflexive' % kname
    if e and hash(a) != hash(b):
        return '%s: equal objects hash differently (%s)' % (kname, aname)
    # transitivity through a case-flipped twin of a
    vc = dict(va)
    for n, c in table:
        if c in ('name', 'name1') and isinstance(vc[n], str):
            vc[n] = flip(vc[n])
    try:
        c3 = build(kname, vc, not rev)
    except (TypeError, ValueError):
        return None
    if not (a == c3):
        return '%s: case-flipped twin with reversed children compares unequal' % kname
    if hash(a) != hash(c3):
        return '%s: case-flipped twin hashes differently' % kname
    if (c3 == b) != e:
        return '%s: == is not transitive (%s)' % (kname, aname)
    TAGS.append('laws')
    return None


SMAX = 1 if mode.tier() == 'quick' else 2


def variant(kind: int, attr: int, s1: Optional[str], s2: Optional[str], b1: Optional[bool], b2: Optional[bool],
            i1: Optional[int], i2: Optional[int], p1: int, p2: int, rev: bool) -> Optional[str]:
    """
    pre: 0 <= kind < len(KIND_NAMES) and kind % NPARTS == PART
    pre: 0 <= attr < len(KINDS[KIND_NAMES[kind]])
    pre: s1 is None or len(s1) <= SMAX
    pre: s2 is None or len(s2) <= SMAX
    pre: 0 <= p1 <= 10 and 0 <= p2 <= 10
    post: _ is None
    """
    return _variant(kind, attr, s1, s2, b1, b2, i1, i2, p1, p2, rev)


def variant_reach(kind: int, attr: int, s1: Optional[str], s2: Optional[str], b1: Optional[bool], b2: Optional[bool],
                  i1: Optional[int], i2: Optional[int], p1: int, p2: int, rev: bool) -> bool:
    """
    pre: 0 <= kind < len(KIND_NAMES)
    pre: 0 <= attr < len(KINDS[KIND_NAMES[kind]])
    pre: s1 is None or len(s1) <= SMAX
    pre: s2 is None or len(s2) <= SMAX
    pre: 0 <= p1 <= 10 and 0 <= p2 <= 10
    post: _
    """
    del TAGS[:]
    r = _variant(kind, attr, s1, s2, b1, b2, i1, i2, p1, p2, rev)
    return not (r is None and 'laws' in TAGS and rev)


# ------------------------------------------------------------------ CIMDateTime (concrete pool, selectors)
DTS = ['20140924193040.654321+120', '201409241930**.******+120', '20140924193000.000000+120', '20140924173040.654321+000',
       '00000123010203.000004:000', '000001230102**.******:000', '00000123010200.000000:000', '20140924193040.654321-120']


def _dtlaws(i: int, j: int):
    a = CIMDateTime(DTS[i])
    b = CIMDateTime(DTS[j])
    e = (a == b)
    if (b == a) != e or (a != b) == e:
        return 'CIMDateTime: ==/!= not symmetric/negated'
    if e and hash(a) != hash(b):
        return 'CIMDateTime: equal values hash differently'
    same_attrs = (a.is_interval == b.is_interval and a.datetime == b.datetime and a.timedelta == b.timedelta
                  and a.minutes_from_utc == b.minutes_from_utc and a.precision == b.precision)
    if same_attrs and not e:
        return 'CIMDateTime: identical public attributes compare unequal'
    if e and not same_attrs and (a.precision != b.precision):
        # only this symptom is the listed known finding; the other laws are still checked for the pair
        if not kf.skip('c05_laws:dtlaws', i=i, j=j, same_value_other_precision=True):
            return 'CIMDateTime: values differing in precision compare equal'
    for c in (_copy.copy(a), _copy.deepcopy(a), pickle.loads(pickle.dumps(a)), CIMDateTime(a)):
        if not (c == a) or hash(c) != hash(a) or c.precision != a.precision or str(c) != str(a):
            return 'CIMDateTime: copy differs from the original'
    TAGS.append('laws')
    return None


def dtlaws(i: int, j: int) -> Optional[str]:
    """
    pre: 0 <= i < 8 and 0 <= j < 8
    post: _ is None
    """
    if mode.REPLAY:
        return _dtlaws(i, j)
    from crosshair.tracers import NoTracing
    from crosshair.core import realize
    i, j = realize(i), realize(j)
    with NoTracing():
        return _dtlaws(i, j)


def dtlaws_reach(i: int, j: int) -> bool:
    """
    pre: 0 <= i < 8 and 0 <= j < 8
    post: _
    """
    del TAGS[:]
    r = dtlaws(i, j)
    return not (r is None and 'laws' in TAGS)


# ------------------------------------------------------------------ copy independence
def _copyind(kind: int, how: int, attr: int, s: str, b: Optional[bool], n: Optional[int], child: int):
    kname = KIND_NAMES[kind]
    if kname == 'NocaseDict' and how == 1:
        how = 0          # nocasedict documents copy.copy() as "completely shallow" (shares the item storage); .copy() is the dict-like copy
    if kf.skip('c05_laws:copyind', kind=kname, how=how, attr=attr, child=child):
        return None
    orig = build(kname, dict(DEFAULTS), False)
    twin = build(kname, dict(DEFAULTS), False)
    if how == 0:
        cp = orig.copy()
        if kname == 'NocaseDict':
            cp = NocaseDict(cp)
    elif how == 1:
        cp = _copy.copy(orig)
    elif how == 2:
        cp = _copy.deepcopy(orig)
    else:
        cp = pickle.loads(pickle.dumps(orig))
    if not (cp == orig) or (cp != orig):
        return '%s: copy (method %d) is not equal to the original' % (kname, how)
    if hash(cp) != hash(orig):
        return '%s: copy hashes differently' % kname
    TAGS.append('copied')
    # one mutation of the copy; shallow copy.copy() shares children by definition, so only
    # top-level attribute rebinding is demanded for how == 1
    deep = how != 1
    mutate(kname, cp, attr, s, b, n, child if deep else 0)
    if not (orig == twin):
        return '%s: mutating the copy (method %d, attribute index %d, child %d) changed the original' % (kname, how, attr, child if deep else 0)
    return None


def mutate(kname, o, attr, s, b, n, child):
    """One mutation chosen by (attr, child): child 0 = rebind a top-level attribute, 1 = mutate
    inside the first child collection, 2 = mutate inside a nested object (path)."""
    if kname == 'NocaseDict':
        if child == 0:
            o['Key'] = s
        else:
            o['New' + s] = 1
        return
    if child == 1:
        for coll in ('keybindings', 'properties', 'qualifiers', 'parameters', 'methods', 'scopes'):
            d = getattr(o, coll, None)
            if d is not None and len(d):
                k = list(d.keys())[0]
                v = d[k]
                if isinstance(v, (CIMProperty, CIMQualifier)):
                    v.value = s
                elif isinstance(v, (CIMParameter, CIMMethod)):
                    v.name = 'X' + s
                else:
                    d[k] = s
                d['Added'] = d[k]
                return
        return
    if child == 2:
        p = getattr(o, 'path', None)
        if p is not None:
            p.classname = 'X' + s
            if hasattr(p, 'keybindings'):
                p.keybindings['k'] = s
        return
    names = [a for a in ('classname', 'name', 'host', 'namespace', 'superclass', 'class_origin', 'reference_class', 'propagated',
                         'array_size', 'overridable', 'tosubclass', 'value') if hasattr(o, a)]
    a = names[attr % len(names)]
    try:
        if a in ('propagated', 'overridable', 'tosubclass'):
            setattr(o, a, b)
        elif a == 'array_size':
            setattr(o, a, n)
        elif a == 'value':
            setattr(o, a, s if not isinstance(getattr(o, a), list) else [s])
        else:
            setattr(o, a, 'X' + s)
    except (TypeError, ValueError):
        pass


def copyind(kind: int, how: int, attr: int, s: str, b: Optional[bool], n: Optional[int], child: int) -> Optional[str]:
    """
    pre: 0 <= kind < len(KIND_NAMES) and kind % NPARTS == PART
    pre: 0 <= how <= 3 and 0 <= attr <= 11 and len(s) <= 1 and 0 <= child <= 2
    pre: n is None or n >= 0
    post: _ is None
    """
    return _copyind(kind, how, attr, s, b, n, child)


def copyind_reach(kind: int, how: int, attr: int, s: str, b: Optional[bool], n: Optional[int], child: int) -> bool:
    """
    pre: 0 <= kind < len(KIND_NAMES)
    pre: 0 <= how <= 3 and 0 <= attr <= 11 and len(s) <= 1 and 0 <= child <= 2
    pre: n is None or n >= 0
    post: _
    """
    del TAGS[:]
    r = _copyind(kind, how, attr, s, b, n, child)
    return not (r is None and 'copied' in TAGS and child == 1)
