"""C06-H2/H4 (E1): typed value acceptance - a value given to cimvalue() or to a typed
property/qualifier/parameter/qualifier declaration is stored as exactly that CIM type or
rejected with TypeError/ValueError; CIMDateTime built from datetime/timedelta/CIMDateTime
objects prints and re-parses to an equal object with the same kind/offset/precision."""
import warnings
warnings.simplefilter('ignore')
from typing import Optional
from datetime import datetime, timedelta
from verifpw import kf, mode
import pywbem
from pywbem import (CIMProperty, CIMQualifier, CIMParameter, CIMQualifierDeclaration, CIMInstanceName, CIMDateTime,
                    Uint8, Sint8, Uint16, Sint16, Uint32, Sint32, Uint64, Sint64, Real32, Real64, MinutesFromUTC, cimvalue)
import pywbem._cim_obj as com
import pywbem._cim_types as ctm

if not mode.REPLAY:
    com._format = lambda *a, **k: 'msg'
    ctm._format = lambda *a, **k: 'msg'
PART, NPARTS = mode.part()
TAGS = []
INF = float('inf')
DT = CIMDateTime('20140924193040.654321+120')
VALUES = [0, -1, 255, 256, 2**64, True, 1.5, INF, float('nan'), '12', 'abc', '', 'x', Uint8(5), Uint64(2**40), Sint16(-5),
          Sint64(-2**63), Real32(1.5), Real64(-2.5), DT, timedelta(days=3), CIMInstanceName('C', {'k': 1}), b'7',
          '20140924193040.654321+120', '0x1F', ' 7 ']
TYPES = ['boolean', 'string', 'char16', 'uint8', 'sint8', 'uint16', 'sint16', 'uint32', 'sint32', 'uint64', 'sint64',
         'real32', 'real64', 'datetime', 'reference']
INTCLS = {'uint8': Uint8, 'sint8': Sint8, 'uint16': Uint16, 'sint16': Sint16, 'uint32': Uint32, 'sint32': Sint32,
          'uint64': Uint64, 'sint64': Sint64}
LIM = {'uint8': (0, 2**8 - 1), 'sint8': (-2**7, 2**7 - 1), 'uint16': (0, 2**16 - 1), 'sint16': (-2**15, 2**15 - 1),
       'uint32': (0, 2**32 - 1), 'sint32': (-2**31, 2**31 - 1), 'uint64': (0, 2**64 - 1), 'sint64': (-2**63, 2**63 - 1)}
APIS = ['cimvalue', 'CIMProperty', 'CIMProperty.value=', 'CIMQualifier', 'CIMQualifier.value=', 'CIMParameter',
        'CIMQualifierDeclaration', 'CIMProperty[array]']


def conforms(v, t):
    """Is v a value of exactly CIM type t (property text: 'stored as exactly that CIM type')."""
    if v is None:
        return True
    if isinstance(v, list):
        return all(conforms(x, t) for x in v)
    if t in INTCLS:
        return type(v) is INTCLS[t] and LIM[t][0] <= int(v) <= LIM[t][1]
    if t == 'boolean':
        return type(v) is bool
    if t == 'string':
        return isinstance(v, (str, pywbem.CIMInstance, pywbem.CIMClass))      # embedded objects are string-typed
    if t == 'char16':
        return isinstance(v, str)
    if t == 'real32':
        return type(v) is Real32
    if t == 'real64':
        return type(v) is Real64
    if t == 'datetime':
        return type(v) is CIMDateTime
    if t == 'reference':
        return isinstance(v, (CIMInstanceName, pywbem.CIMClassName))
    return False


def _store(api, v, t):
    if api == 0:
        return cimvalue(v, t)
    if api == 1:
        return CIMProperty('p', v, type=t).value
    if api == 2:
        p = CIMProperty('p', None, type=t)
        p.value = v
        return p.value
    if api == 3:
        return CIMQualifier('q', v, type=t).value
    if api == 4:
        q = CIMQualifier('q', None, type=t)
        q.value = v
        return q.value
    if api == 5:
        return CIMParameter('p', t, value=v).value
    if api == 6:
        return CIMQualifierDeclaration('q', t, value=v).value
    return CIMProperty('p', [v], type=t, is_array=True).value


def _typed(api: int, vsel: int, tsel: int):
    v = VALUES[vsel]
    t = TYPES[tsel]
    if kf.skip('c06_typed:typed', api=api, vsel=vsel, tsel=tsel, value_is_str=isinstance(v, (str, bytes)), type_name=t):
        return None
    if t == 'datetime' and not mode.REPLAY:
        from crosshair.tracers import NoTracing
        from crosshair.core import realize
        api = realize(api)
        with NoTracing():             # CIMDateTime cannot be built under the tracer (tzinfo subclass)
            try:
                r = _store(api, v, t)
            except (TypeError, ValueError):
                return None
    else:
        try:
            r = _store(api, v, t)
        except (TypeError, ValueError):
            TAGS.append('rejected')
            return None
    TAGS.append('stored')
    if not conforms(r, t):
        return '%s stored %s for type %s' % (APIS[api], type(r).__name__, t)
    return None


def typed(api: int, vsel: int, tsel: int) -> Optional[str]:
    """
    pre: 0 <= api < len(APIS) and 0 <= vsel < len(VALUES) and 0 <= tsel < len(TYPES)
    pre: api % NPARTS == PART
    post: _ is None
    """
    return _typed(api, vsel, tsel)


def typed_reach(api: int, vsel: int, tsel: int) -> bool:
    """
    pre: 0 <= api < len(APIS) and 0 <= vsel < len(VALUES) and 0 <= tsel < len(TYPES)
    post: _
    """
    del TAGS[:]
    r = _typed(api, vsel, tsel)
    return not (r is None and 'stored' in TAGS and api == 1 and tsel == 3)


# ------------------------------------------------------------------ H4: CIMDateTime from objects
DTPOOL = [
    timedelta(0), timedelta(days=99999999, hours=23, minutes=59, seconds=59, microseconds=999999),
    timedelta(days=200000, microseconds=999999), timedelta(days=12345678, seconds=86399, microseconds=999999),
    timedelta(days=1, seconds=1, microseconds=1), timedelta(microseconds=999999), timedelta(days=99999999),
    datetime(1, 1, 1, 0, 0, 0, 0, MinutesFromUTC(0)), datetime(9999, 12, 31, 23, 59, 59, 999999, MinutesFromUTC(999)),
    datetime(2024, 2, 29, 12, 0, 0, 500000, MinutesFromUTC(-999)), datetime(2000, 1, 1, 0, 0, 0, 1, MinutesFromUTC(-1)),
    datetime(2014, 9, 24, 19, 30, 40, 654321),
    CIMDateTime('201409241930**.******+120'), CIMDateTime('20140924193040.6543**-030'), CIMDateTime('00000123******.******:000'),
    CIMDateTime('99999999235959.999999:000'), CIMDateTime('20140924193040.654321-000'),
]


def _dtobj(sel: int):
    src = DTPOOL[sel]
    x = CIMDateTime(src)
    s = str(x)
    import re
    if len(s) != 25 or not re.fullmatch(r'[0-9*]{14}\.[0-9*]{6}[+\-:][0-9]{3}', s):
        return 'str(x) = %r is not a 25-character DSP0004 datetime string' % s
    x2 = CIMDateTime(s)
    if not (x2 == x):
        return 'CIMDateTime(str(x)) != x for %r' % s
    if x2.is_interval != x.is_interval or x2.minutes_from_utc != x.minutes_from_utc or x2.precision != x.precision:
        return 'kind/offset/precision changed for %r' % s
    if isinstance(src, timedelta) and x.timedelta != src:
        return 'CIMDateTime(timedelta) holds a different interval'
    if isinstance(src, datetime) and src.tzinfo is not None and x.datetime != src:
        return 'CIMDateTime(datetime) holds a different point in time'
    if isinstance(src, CIMDateTime):
        if not (x == src) or x.is_interval != src.is_interval or x.minutes_from_utc != src.minutes_from_utc:
            return 'CIMDateTime(CIMDateTime) differs from its source'
        if kf.skip('c06_typed:dtobj', copy_precision=True):
            return None
        if x.precision != src.precision:
            return 'CIMDateTime(CIMDateTime) dropped the precision'
    TAGS.append('ok')
    return None


def dtobj(sel: int) -> Optional[str]:
    """
    pre: 0 <= sel < len(DTPOOL)
    post: _ is None
    """
    if mode.REPLAY:
        return _dtobj(sel)
    from crosshair.tracers import NoTracing
    from crosshair.core import realize
    k = realize(sel)
    with NoTracing():
        return _dtobj(k)


def dtobj_reach(sel: int) -> bool:
    """
    pre: 0 <= sel < len(DTPOOL)
    post: _
    """
    del TAGS[:]
    r = dtobj(sel)
    return not (r is None and 'ok' in TAGS)
