"""C03 harnesses (E1): everything pywbem puts on the wire is well-formed, DTD-valid CIM-XML
and the CIMMethod/CIMObject headers agree with the body - or the call fails locally.

H1 request():  every public operation (selector) with symbolic argument shapes/strings;
               the request DOM is validated against the DTD read from /repo/tests/dtd
               (content models, ATTLIST), every text/attribute consists of XML Chars,
               headers name the method and target of the body.
H2 objxml():   tocimxml() of CIM objects built as in C01 is DTD-valid.
H3 listener_response(): send_error_response / send_success_response bodies are DTD-valid
               and Content-Length equals the number of bytes written.
"""
from typing import Optional
from verifpw import kf, mode, dtd
from verifpw.xmlmodel import all_xml_chars, IllFormed
import wire
from wire import capture, request_tt, server_decode
import pywbem
from pywbem import (WBEMConnection, CIMInstanceName, CIMClassName, CIMInstance, CIMClass, CIMProperty, CIMQualifierDeclaration,
                    CIMQualifier, CIMParameter, CIMMethod, Uint8, Real32, CIMDateTime)
import urllib.parse

PART, NPARTS = mode.part()
TAGS = []
SMAX = 2 if mode.tier() == 'quick' else 3


_DT = CIMDateTime('20140924193040.654321+120')      # built untraced at import (tzinfo subclass); its __str__ runs untraced (c01 patch)


def _path(cn, kv, ns, host):
    return CIMInstanceName(cn, keybindings=[('k', kv)], namespace=ns, host=host)


def _inst(cn, kv, sv, ns):
    return CIMInstance(cn, properties=[CIMProperty('k', kv), CIMProperty('a', [Uint8(1), None], type='uint8'),
                                        CIMProperty('s', sv, type='string'),
                                        CIMProperty('e', CIMInstance('Emb', properties={'x': sv}), embedded_object='instance')],
                       path=_path(cn, kv, ns, None))


# (name, builder(conn, cn, kv, sv, ns, host, flag, pl)) -- cn: class name, kv: key value, sv: string value
OPS = [
    ('GetInstance', lambda c, cn, kv, sv, ns, host, f, pl: c.GetInstance(_path(cn, kv, ns, host), LocalOnly=f, IncludeQualifiers=f, PropertyList=pl.get())),
    ('EnumerateInstances', lambda c, cn, kv, sv, ns, host, f, pl: c.EnumerateInstances(cn, namespace=ns, DeepInheritance=f, IncludeClassOrigin=f, PropertyList=pl.get())),
    ('EnumerateInstanceNames', lambda c, cn, kv, sv, ns, host, f, pl: c.EnumerateInstanceNames(CIMClassName(cn, namespace=ns, host=host))),
    ('CreateInstance', lambda c, cn, kv, sv, ns, host, f, pl: c.CreateInstance(_inst(cn, kv, sv, ns), namespace=ns)),
    ('ModifyInstance', lambda c, cn, kv, sv, ns, host, f, pl: c.ModifyInstance(_inst(cn, kv, sv, ns), IncludeQualifiers=f, PropertyList=pl.get())),
    ('DeleteInstance', lambda c, cn, kv, sv, ns, host, f, pl: c.DeleteInstance(_path(cn, kv, ns, host))),
    ('Associators', lambda c, cn, kv, sv, ns, host, f, pl: c.Associators(_path(cn, kv, ns, host), AssocClass=sv, ResultClass=CIMClassName(cn), Role=sv, IncludeQualifiers=f, PropertyList=pl.get())),
    ('AssociatorNames', lambda c, cn, kv, sv, ns, host, f, pl: c.AssociatorNames(cn if f else _path(cn, kv, ns, host), ResultRole=sv)),
    ('References', lambda c, cn, kv, sv, ns, host, f, pl: c.References(CIMClassName(cn, namespace=ns) if f else _path(cn, kv, ns, host), ResultClass=sv, PropertyList=pl.get())),
    ('ReferenceNames', lambda c, cn, kv, sv, ns, host, f, pl: c.ReferenceNames(_path(cn, kv, ns, host), Role=sv)),
    ('InvokeMethod', lambda c, cn, kv, sv, ns, host, f, pl: c.InvokeMethod(sv or 'M', CIMClassName(cn, namespace=ns, host=host) if f else _path(cn, kv, ns, host),
                                                                           Params=[('p1', kv), ('p2', [Uint8(1), Uint8(2)]), ('p3', _path(cn, kv, ns, None)),
                                                                                   ('p4', CIMInstance('Emb', properties={'x': sv})), ('p5', None), ('p6', Real32(1.5)),
                                                                                   ('p7', [CIMInstance('Emb')]), ('p8', _DT)], Extra=sv)),
    ('ExecQuery', lambda c, cn, kv, sv, ns, host, f, pl: c.ExecQuery(kv, sv, namespace=ns)),
    ('GetClass', lambda c, cn, kv, sv, ns, host, f, pl: c.GetClass(CIMClassName(cn, namespace=ns, host=host) if f else cn, namespace=None if f else ns, LocalOnly=f, PropertyList=pl.get())),
    ('EnumerateClasses', lambda c, cn, kv, sv, ns, host, f, pl: c.EnumerateClasses(namespace=ns, ClassName=cn if f else None, DeepInheritance=f)),
    ('EnumerateClassNames', lambda c, cn, kv, sv, ns, host, f, pl: c.EnumerateClassNames(namespace=ns, ClassName=CIMClassName(cn) if f else None)),
    ('CreateClass', lambda c, cn, kv, sv, ns, host, f, pl: c.CreateClass(CIMClass(cn, superclass=sv or None, properties=[CIMProperty('p', None, type='string', qualifiers=[CIMQualifier('Key', True)]),
                                                                          CIMProperty('r', None, type='reference', reference_class=cn)],
                                                                         methods=[CIMMethod('m', 'uint32', parameters=[CIMParameter('pa', 'string', is_array=True, array_size=2)])]), namespace=ns)),
    ('ModifyClass', lambda c, cn, kv, sv, ns, host, f, pl: c.ModifyClass(CIMClass(cn, qualifiers=[CIMQualifier('Description', sv)]), namespace=ns)),
    ('DeleteClass', lambda c, cn, kv, sv, ns, host, f, pl: c.DeleteClass(cn, namespace=ns)),
    ('GetQualifier', lambda c, cn, kv, sv, ns, host, f, pl: c.GetQualifier(cn, namespace=ns)),
    ('SetQualifier', lambda c, cn, kv, sv, ns, host, f, pl: c.SetQualifier(CIMQualifierDeclaration(cn, 'string', value=sv, scopes={'CLASS': True, 'ANY': f is True}, overridable=f), namespace=ns)),
    ('DeleteQualifier', lambda c, cn, kv, sv, ns, host, f, pl: c.DeleteQualifier(cn, namespace=ns)),
    ('EnumerateQualifiers', lambda c, cn, kv, sv, ns, host, f, pl: c.EnumerateQualifiers(namespace=ns)),
    ('OpenEnumerateInstances', lambda c, cn, kv, sv, ns, host, f, pl: c.OpenEnumerateInstances(cn, namespace=ns, FilterQueryLanguage=sv or None, FilterQuery=kv, OperationTimeout=3, ContinueOnError=f, MaxObjectCount=2, PropertyList=pl.get())),
    ('OpenEnumerateInstancePaths', lambda c, cn, kv, sv, ns, host, f, pl: c.OpenEnumerateInstancePaths(cn, namespace=ns, MaxObjectCount=0)),
    ('OpenAssociatorInstances', lambda c, cn, kv, sv, ns, host, f, pl: c.OpenAssociatorInstances(_path(cn, kv, ns, host), AssocClass=sv, MaxObjectCount=1)),
    ('OpenReferenceInstancePaths', lambda c, cn, kv, sv, ns, host, f, pl: c.OpenReferenceInstancePaths(_path(cn, kv, ns, host), ResultClass=sv)),
    ('OpenQueryInstances', lambda c, cn, kv, sv, ns, host, f, pl: c.OpenQueryInstances(kv, sv, namespace=ns, ReturnQueryResultClass=f, MaxObjectCount=1)),
    ('PullInstancesWithPath', lambda c, cn, kv, sv, ns, host, f, pl: c.PullInstancesWithPath((kv, ns or 'root/x'), 3)),
    ('PullInstancePaths', lambda c, cn, kv, sv, ns, host, f, pl: c.PullInstancePaths((kv, ns or 'root/x'), 0)),
    ('CloseEnumeration', lambda c, cn, kv, sv, ns, host, f, pl: c.CloseEnumeration((kv, ns or 'root/x'))),
]


# connections are built once, untraced (requests.Session construction costs ~0.5 s per path under the tracer)
CONNS = [WBEMConnection('http://h', default_namespace='root/cimv2'), WBEMConnection('http://h', default_namespace='a/b/c')]


class PL:
    """PropertyList argument, realised only by the operations that use it (keeps npl unforked elsewhere)."""
    def __init__(self, npl, sv, kv):
        self.a = (npl, sv, kv)

    def get(self):
        npl, sv, kv = self.a
        if npl == 0:
            return None
        if npl == 1:
            return [sv]
        if npl == 2:
            return [sv, kv]
        return sv


def chars_ok(tt):
    for v in tt[1].values():
        if not all_xml_chars(v):
            return False
    for k in tt[2]:
        if isinstance(k, str):
            if not all_xml_chars(k):
                return False
        elif not chars_ok(k):
            return False
    return True


def plain_tt(node):
    return dtd.dom_to_plain_tt(node)


def _request(op: int, cn: str, kv: str, sv: str, ns: Optional[str], host: Optional[str], flag: Optional[bool], npl: int, dns: int):
    opname, call = OPS[op]
    if kf.skip('c03_wire:request', op=opname, cn=cn, kv=kv, sv=sv, ns=ns, host=host, flag=flag, npl=npl):
        return None
    conn = CONNS[1] if dns == 1 else CONNS[0]
    cap = capture(lambda c: call(c, cn, kv, sv, ns, host, flag, PL(npl, sv, kv)), conn)
    if cap[0] == 'local-error':
        if 'is not safe' in str(cap[1]) or 'tzinfo' in str(cap[1]):
            return 'ENGINE-ARTEFACT: ' + str(cap[1])[:100]       # CrossHair cannot trace this; must not pass silently
        TAGS.append('local')
        return None
    if cap[0] != 'sent':
        return '%s: returned without sending a request' % opname
    TAGS.append('sent')
    tt = plain_tt(cap[1])
    # 1. structure: DTD content models and attribute lists (independent of the string contents)
    r = dtd.validate_tt(tt)
    if r and kf.skip('c03_wire:request:dtd', msg=r):
        return None
    if r:
        return '%s: request is not DTD-valid: %s' % (opname, r)
    # 2. characters
    ok = chars_ok(tt)
    if kf.skip('c03_wire:request:chars', op=opname, chars_ok=ok):
        return None
    if not ok:
        return '%s: request contains characters that are not XML 1.0 Chars (ill-formed document emitted)' % opname
    if mode.REPLAY:
        r = wire.lxml_validate(cap[3])        # cross-check of the in-harness validator on the real bytes
        if r:
            return '%s: request is not DTD-valid (lxml): %s' % (opname, r)
    # header / body agreement
    hdr = dict(cap[2])
    body_call = tt[2][0][2][0][2][0]           # CIM/MESSAGE/SIMPLEREQ/(I)METHODCALL
    if hdr.get('CIMMethod') != urllib.parse.quote(body_call[1]['NAME']) and hdr.get('CIMMethod') != body_call[1]['NAME']:
        return '%s: CIMMethod header does not name the method of the body' % opname
    if body_call[0] == 'IMETHODCALL':
        nsparts = [k[1]['NAME'] for k in body_call[2][0][2]]
        want = '/'.join(nsparts)
        if urllib.parse.unquote(hdr.get('CIMObject', '')) != want and hdr.get('CIMObject') != want:
            return '%s: CIMObject header does not name the namespace of the body' % opname
    else:
        lp = body_call[2][0]                   # LOCALINSTANCEPATH | LOCALCLASSPATH
        if lp[0] not in ('LOCALINSTANCEPATH', 'LOCALCLASSPATH'):
            return '%s: METHODCALL target is %s' % (opname, lp[0])
        nsparts = [k[1]['NAME'] for k in lp[2][0][2]]
        obj = lp[2][1]
        cname = obj[1].get('CLASSNAME') or obj[1].get('NAME')
        h = urllib.parse.unquote(hdr.get('CIMObject', ''))
        if not h.startswith('/'.join(nsparts) + ':' + cname):
            return '%s: CIMObject header does not name the target object of the body' % opname
    return None


def request(op: int, cn: str, kv: str, sv: str, ns: Optional[str], host: Optional[str], flag: Optional[bool], npl: int, dns: int) -> Optional[str]:
    """
    pre: 0 <= op < len(OPS) and op % NPARTS == PART
    pre: 1 <= len(cn) <= SMAX and len(kv) <= SMAX and len(sv) <= SMAX
    pre: ns is None or 1 <= len(ns) <= 3
    pre: host is None or 1 <= len(host) <= 2
    pre: 0 <= npl <= 3 and 0 <= dns <= 1
    post: _ is None
    """
    return _request(op, cn, kv, sv, ns, host, flag, npl, dns)


def request_reach(op: int, cn: str, kv: str, sv: str, ns: Optional[str], host: Optional[str], flag: Optional[bool], npl: int, dns: int) -> bool:
    """
    pre: 0 <= op < len(OPS) and op % NPARTS == PART
    pre: 1 <= len(cn) <= SMAX and len(kv) <= SMAX and len(sv) <= SMAX
    pre: ns is None or 1 <= len(ns) <= 3
    pre: host is None or 1 <= len(host) <= 2
    pre: 0 <= npl <= 3 and 0 <= dns <= 1
    post: _
    """
    del TAGS[:]
    r = _request(op, cn, kv, sv, ns, host, flag, npl, dns)
    return not (r is None and 'sent' in TAGS)


# ------------------------------------------------------------------ H1b: target forms of extrinsic calls
def _invoke_target(tk: int, cn: str, kv: str, ns: Optional[str], host: Optional[str], dns: int, mname: str):
    if tk == 0:
        target = cn
    elif tk == 1:
        target = CIMClassName(cn, namespace=ns, host=host)
    else:
        target = _path(cn, kv, ns, host)
    conn = CONNS[1] if dns == 1 else CONNS[0]
    cap = capture(lambda c: c.InvokeMethod(mname, target, Params=[('p', Uint8(1))]), conn)
    if cap[0] == 'local-error':
        return None
    TAGS.append('sent')
    tt = plain_tt(cap[1])
    r = dtd.validate_tt(tt)
    if r:
        return 'InvokeMethod: request is not DTD-valid: %s' % r
    if kf.skip('c03_wire:request:chars', op='InvokeMethod', chars_ok=chars_ok(tt)):
        return None
    if mode.REPLAY:
        r = wire.lxml_validate(cap[3])
        if r:
            return 'InvokeMethod: request is not DTD-valid (lxml): %s' % r
    hdr = dict(cap[2])
    lp = tt[2][0][2][0][2][0][2][0]
    nsparts = [k[1]['NAME'] for k in lp[2][0][2]]
    want_ns = ns if (tk != 0 and ns is not None) else ('a/b/c' if dns == 1 else 'root/cimv2')
    if '/'.join(nsparts) != want_ns.strip('/'):
        return 'InvokeMethod: target namespace in the body is not the supplied/default namespace'
    h = urllib.parse.unquote(hdr.get('CIMObject', ''))
    if not h.startswith('/'.join(nsparts) + ':'):
        return 'InvokeMethod: CIMObject header does not name the target of the body'
    return None


def invoke_target(tk: int, cn: str, kv: str, ns: Optional[str], host: Optional[str], dns: int, mname: str) -> Optional[str]:
    """
    pre: 0 <= tk <= 2 and 1 <= len(cn) <= 2 and len(kv) <= 1 and 0 <= dns <= 1 and 1 <= len(mname) <= 2
    pre: ns is None or 1 <= len(ns) <= 3
    pre: host is None or 1 <= len(host) <= 2
    post: _ is None
    """
    return _invoke_target(tk, cn, kv, ns, host, dns, mname)


def invoke_target_reach(tk: int, cn: str, kv: str, ns: Optional[str], host: Optional[str], dns: int, mname: str) -> bool:
    """
    pre: 0 <= tk <= 2 and 1 <= len(cn) <= 2 and len(kv) <= 1 and 0 <= dns <= 1 and 1 <= len(mname) <= 2
    pre: ns is None or 1 <= len(ns) <= 3
    pre: host is None or 1 <= len(host) <= 2
    post: _
    """
    del TAGS[:]
    r = _invoke_target(tk, cn, kv, ns, host, dns, mname)
    return not (r is None and 'sent' in TAGS and tk == 2)


# ------------------------------------------------------------------ H2: tocimxml() of objects
import c01_roundtrip as c01


def _objxml(kind: int, name: str, tsel: int, vsel: int, sval: str, flag: Optional[bool], n: int, scopes: int):
    """DTD validity of tocimxml() for objects built like the C01 harnesses build them."""
    if kind == 0:
        obj = c01.CIMProperty(name, None if flag else c01.typed(tsel, vsel, sval)[1], type=c01.typed(tsel, vsel, sval)[0],
                              propagated=flag, class_origin=sval, qualifiers=c01.quals(n % 3, sval))
    elif kind == 1:
        t, v = c01.typed(tsel, vsel, sval)
        obj = c01.CIMProperty(name, [v, None][:n % 3], type=t, is_array=True, array_size=n)
    elif kind == 2:
        obj = c01.mkpath(name, n % 3, tsel, 'k', sval, 'h' if flag else None, 'ns' if flag is not None else None, 1)
    elif kind == 3:
        sc = {}
        for i in range(8):
            if (scopes >> i) & 1:
                sc[c01.SCOPES[i]] = True
        t, v = c01.typed(tsel, vsel, sval)
        obj = c01.CIMQualifierDeclaration(name, t, value=None if flag else v, scopes=sc, overridable=flag, toinstance=flag)
    elif kind == 4:
        obj = c01.CIMMethod(name, return_type=c01.typed(tsel, 0, sval)[0],
                            parameters=[c01.CIMParameter('p', 'reference', reference_class=sval or None, is_array=bool(flag), array_size=n if flag else None)],
                            qualifiers=c01.quals(n % 3, sval))
    elif kind == 5:
        obj = c01.CIMClass(name, superclass=sval or None, properties=[c01.CIMProperty('p', None, type=c01.typed(tsel, 0, sval)[0])],
                           methods=[c01.CIMMethod('m', 'uint8')], qualifiers=c01.quals(n % 3, sval))
    elif kind == 6:
        t, v = c01.typed(tsel, vsel, sval)
        obj = c01.CIMInstance(name, properties=[c01.CIMProperty('p', v, type=t)],
                              path=c01.CIMInstanceName(name, {'k': sval}, namespace='n' if flag is not None else None, host='h' if flag else None))
    else:
        t, v = c01.typed(tsel, vsel, sval)
        obj = c01.CIMQualifier(name, None if flag else ([v] if n % 2 else v), type=t, overridable=flag, translatable=flag)
    dom = obj.tocimxml()
    tt = plain_tt(dom)
    ok = chars_ok(tt)
    if kf.skip('c03_wire:objxml:chars', chars_ok=ok):
        return None
    if not ok:
        return 'tocimxml() output contains characters that are not XML 1.0 Chars'
    r = dtd.validate_tt(tt)
    if r and kf.skip('c03_wire:objxml:dtd', msg=r, kind=kind, flag=flag):
        return None
    if r:
        return 'tocimxml() of kind %d is not DTD-valid: %s' % (kind, r)
    TAGS.append('valid')
    return None


def objxml(kind: int, name: str, tsel: int, vsel: int, sval: str, flag: Optional[bool], n: int, scopes: int) -> Optional[str]:
    """
    pre: 0 <= kind <= 7 and kind % NPARTS == PART
    pre: 1 <= len(name) <= 2 and len(sval) <= 2 and 0 <= tsel < c01.NTYPES and 0 <= vsel < 5 and 0 <= n <= 3 and 0 <= scopes < 256
    post: _ is None
    """
    return _objxml(kind, name, tsel, vsel, sval, flag, n, scopes)


def objxml_reach(kind: int, name: str, tsel: int, vsel: int, sval: str, flag: Optional[bool], n: int, scopes: int) -> bool:
    """
    pre: 0 <= kind <= 7
    pre: 1 <= len(name) <= 2 and len(sval) <= 2 and 0 <= tsel < c01.NTYPES and 0 <= vsel < 5 and 0 <= n <= 3 and 0 <= scopes < 256
    post: _
    """
    del TAGS[:]
    r = _objxml(kind, name, tsel, vsel, sval, flag, n, scopes)
    return not (r is None and 'valid' in TAGS)


# ------------------------------------------------------------------ H3: listener responses
import io
import logging
from pywbem._listener import ListenerRequestHandler
import pywbem._cim_xml as cx


class _Lst:
    def __init__(self):
        self.logger = logging.getLogger('verif.c03')
        self.logger.disabled = True


class _Srv:
    pass


class _H(ListenerRequestHandler):
    def __init__(self):
        self.rec = []
        self.server = _Srv()
        self.server.listener = _Lst()
        self.client_address = ('1.2.3.4', 1)
        self.wfile = io.BytesIO()

    def send_response(self, code, message=None):
        self.rec.append(('status', code))

    def send_header(self, k, v):
        self.rec.append(('hdr', k, v))

    def end_headers(self):
        self.rec.append(('end',))


SPOOL = ['', 'a', '\u00e9v', '<&>"', '\U00010000', 'x\u4e2d']


def _listener_response(which: int, mi: int, me: int, de: int, code: int):
    # strings come from a pool (selectors): the real minidom writer + UTF-8 encoder run on them
    msgid, methodname, desc = SPOOL[mi], SPOOL[me], SPOOL[de]
    h = _H()
    saved = cx.CIM.toxml
    if not mode.REPLAY:
        cx.CIM.toxml = wire._orig_toxml          # the listener serialises for real (formatting is the subject here)
    try:
        if which == 0:
            h.send_error_response(msgid, methodname, code, desc)
        else:
            h.send_success_response(msgid, methodname, CIMInstance('CIM_AlertIndication'))
    finally:
        cx.CIM.toxml = saved
    body = h.wfile.getvalue()
    cl = [r[2] for r in h.rec if r[0] == 'hdr' and r[1] == 'Content-Length']
    if sum(1 for r in h.rec if r[0] == 'status') != 1 or len(cl) != 1:
        return 'listener response without exactly one status line / Content-Length'
    if int(cl[0]) != len(body):
        return 'Content-Length %s does not equal the %d bytes written' % (cl[0], len(body))
    text = body.decode('utf-8')
    ok = all_xml_chars(msgid) & all_xml_chars(methodname) & all_xml_chars(desc)
    if kf.skip('c03_wire:listener:chars', chars_ok=ok):
        return None
    if not ok:
        return 'listener response contains characters that are not XML 1.0 Chars'
    TAGS.append('resp')
    if mode.REPLAY:
        r = wire.lxml_validate(body)
        if r:
            return 'listener response: ' + r
    return None


def listener_response(which: int, msgid: int, methodname: int, desc: int, code: int) -> Optional[str]:
    """
    pre: 0 <= which <= 1 and 0 <= msgid < 6 and 0 <= methodname < 6 and 0 <= desc < 6 and 0 <= code <= 30
    post: _ is None
    """
    return _listener_response(which, msgid, methodname, desc, code)


def listener_response_reach(which: int, msgid: int, methodname: int, desc: int, code: int) -> bool:
    """
    pre: 0 <= which <= 1 and 0 <= msgid < 6 and 0 <= methodname < 6 and 0 <= desc < 6 and 0 <= code <= 30
    post: _
    """
    del TAGS[:]
    r = _listener_response(which, msgid, methodname, desc, code)
    return not (r is None and 'resp' in TAGS and which == 0)
