"""C08 harnesses (E1): MOF produced by tomof() recompiles to the same objects.

fold(): mofstr() folding of a string built from selectors (filler length = symbolic position
of an escape-producing character, blanks or one long word, control / quote / backslash
characters) for symbolic maxline >= 40, indent, line_pos, end_space: the emitted parts are
string tokens (real lexer pattern) whose DSP0004 decodings concatenate to the original.
objects(): tomof() of a class / instance / qualifier declaration built from selectors (all
types, arrays, NULLs, explicit NULL over a class default, char16, references, embedded
instance, flavors/scopes, one string value from a pool of awkward strings) is compiled with
the real MOFCompiler and the compiled object must equal the original.
"""
import warnings
warnings.simplefilter('ignore')
import re
from typing import Optional
from verifpw import kf, mode
from verifpw.e2 import refs
import pywbem
from pywbem import (CIMClass, CIMInstance, CIMInstanceName, CIMProperty, CIMMethod, CIMParameter, CIMQualifier, CIMQualifierDeclaration,
                    MOFCompiler, Error, Uint8, Sint8, Uint16, Sint16, Uint32, Sint32, Uint64, Sint64, Real32, Real64, CIMDateTime)
from pywbem._mof_compiler import MOFWBEMConnection
import pywbem._mof_compiler as mc
import pywbem._cim_obj as com

PART, NPARTS = mode.part()
TAGS = []
TOKEN = re.compile(mc.stringvalue_re)
SPECIALS = ['\x01', '\x1f', '\n', '\t', '"', "'", '\\', '\x0b', 'é', '\U00010000', ' ', '\\x41']


def split_tokens(mof):
    """The string tokens of a folded literal, using the lexer's own token pattern."""
    out = []
    pos = 0
    while pos < len(mof):
        if mof[pos] in ' \n\t\r':
            pos += 1
            continue
        m = TOKEN.match(mof, pos)
        if not m:
            return None
        out.append(m.group(0))
        pos = m.end()
    return out


def _fold(p: int, q: int, sp: int, blanks: int, maxline: int, indent: int, line_pos: int, end_space: int, sp2: int):
    if kf.skip('c08_tomof:fold', p=p, q=q, special=SPECIALS[sp], blanks=blanks, maxline=maxline, indent=indent, line_pos=line_pos, end_space=end_space):
        return None
    filler = 'abcdefghij' * 20
    left = filler[:p]
    right = filler[:q]
    if blanks == 1:
        left = left.replace('e', ' ')
        right = right.replace('c', ' ')
    elif blanks == 2:
        left = left.replace('j', ' ')
    value = left + SPECIALS[sp] + (SPECIALS[sp2] if sp2 < len(SPECIALS) else '') + right
    try:
        mof, newpos = com.mofstr(value, indent=indent, maxline=maxline, line_pos=line_pos, end_space=end_space)
    except AssertionError:
        return 'mofstr() failed its own endless-loop assertion'
    toks = split_tokens(mof)
    if toks is None:
        return 'mofstr() output is not a sequence of MOF string tokens'
    TAGS.append('folded' if len(toks) > 1 else 'single')
    back = ''.join(refs.ref_mof_string_decode(t) for t in toks)
    if back != value:
        return 'folded literal denotes a different string (fold inside an escape sequence?)'
    # column bookkeeping
    last = mof.split('\n')[-1]
    real_pos = (line_pos + len(mof)) if '\n' not in mof else len(last)
    if newpos != real_pos:
        return 'mofstr() reports line position %d, real column is %d' % (newpos, real_pos)
    for i, line in enumerate(mof.split('\n')):
        width = len(line) + (line_pos if i == 0 else 0)
        if width > maxline and ' ' in value and blanks == 1 and p < maxline - 10 and q < maxline - 10:
            pass        # over-long lines are allowed when a word does not fit; not demanded by the property
    return None


def _run_fold(*a):
    if mode.REPLAY:
        return _fold(*a)
    from crosshair.core import realize
    from crosshair.tracers import NoTracing
    from selpick import pick_all
    b = pick_all(a)
    with NoTracing():
        return _fold(*b)


def fold(p: int, q: int, sp: int, blanks: int, maxline: int, indent: int, line_pos: int, end_space: int, sp2: int) -> Optional[str]:
    """
    pre: 0 <= p <= 130 and 0 <= q <= 130 and 0 <= sp < len(SPECIALS) and 0 <= blanks <= 2 and 40 <= maxline <= 120
    pre: 0 <= indent <= 16 and 0 <= line_pos <= 40 and 0 <= end_space <= 3 and 0 <= sp2 <= len(SPECIALS)
    pre: sp % NPARTS == PART
    post: _ is None
    """
    return _run_fold(p, q, sp, blanks, maxline, indent, line_pos, end_space, sp2)


def fold_reach(p: int, q: int, sp: int, blanks: int, maxline: int, indent: int, line_pos: int, end_space: int, sp2: int) -> bool:
    """
    pre: 0 <= p <= 130 and 0 <= q <= 130 and 0 <= sp < len(SPECIALS) and 0 <= blanks <= 2 and 40 <= maxline <= 120
    pre: 0 <= indent <= 16 and 0 <= line_pos <= 40 and 0 <= end_space <= 3 and 0 <= sp2 <= len(SPECIALS)
    pre: sp % NPARTS == PART
    post: _
    """
    del TAGS[:]
    r = _run_fold(p, q, sp, blanks, maxline, indent, line_pos, end_space, sp2)
    return not (r is None and ('folded' in TAGS or 'single' in TAGS))


# ------------------------------------------------------------------ object round trip
QDECL = [
    CIMQualifierDeclaration('Key', 'boolean', value=False, scopes={'PROPERTY': True, 'REFERENCE': True}, overridable=False, tosubclass=True),
    CIMQualifierDeclaration('Description', 'string', value=None, scopes={'ANY': True}, overridable=True, tosubclass=True, translatable=True),
    CIMQualifierDeclaration('EmbeddedInstance', 'string', value=None, scopes={'PROPERTY': True, 'METHOD': True, 'PARAMETER': True}),
    CIMQualifierDeclaration('Association', 'boolean', value=False, scopes={'ASSOCIATION': True}, overridable=False, tosubclass=True),
    CIMQualifierDeclaration('Values', 'string', is_array=True, value=None, scopes={'PROPERTY': True, 'METHOD': True, 'PARAMETER': True}),
    CIMQualifierDeclaration('MaxLen', 'uint32', value=None, scopes={'PROPERTY': True, 'METHOD': True, 'PARAMETER': True}),
]
STRS = ['plain', '', 'q"uote', "apo'strophe", 'back\\slash', 'ctl\x01\x1fx', 'nl\nta\tb', 'x' * 90, 'word ' * 30, 'é\U00010000', '\\x41', ' lead and trail ']
TYPED = [('boolean', True), ('uint8', Uint8(255)), ('sint8', Sint8(-128)), ('uint16', Uint16(65535)), ('sint16', Sint16(-1)), ('uint32', Uint32(0)),
         ('sint32', Sint32(-2147483648)), ('uint64', Uint64(18446744073709551615)), ('sint64', Sint64(-9223372036854775808)),
         ('real32', Real32(1.5)), ('real64', Real64(-2.25e100)), ('datetime', CIMDateTime('20140924193040.654321+120')),
         ('datetime', CIMDateTime('00000123010203.000004:000')), ('char16', 'c'), ('string', None)]


def base_mof():
    return ''.join(q.tomof() for q in QDECL)


def compile_mof(text):
    conn = MOFWBEMConnection()
    MOFCompiler(conn, log_func=None).compile_string(text, 'root/x')
    return conn


def same(a, b):
    return a == b and a.tomof() == b.tomof()


def _objects(kind: int, tsel: int, ssel: int, arr: bool, null: bool, dflt: bool, maxline: int, nq: int):
    if kf.skip('c08_tomof:objects', kind=kind, type=TYPED[tsel][0], string=STRS[ssel], arr=arr, null=null, dflt=dflt, maxline=maxline, nq=nq,
               has_ctl=any(ord(ch) < 32 for ch in STRS[ssel]), is_char16=TYPED[tsel][0] == 'char16'):
        return None
    t, v = TYPED[tsel]
    if t == 'string':
        v = STRS[ssel]
    val0 = ([v, v] if arr else v)          # non-NULL value (class default when dflt)
    val = None if null else val0
    quals = []
    if nq >= 1:
        quals.append(CIMQualifier('Description', STRS[ssel], type='string'))
    if nq >= 2:
        quals.append(CIMQualifier('Values', [STRS[ssel], 'b'], type='string'))
    if nq >= 3:
        quals.append(CIMQualifier('MaxLen', Uint32(7), type='uint32'))
    cls = CIMClass('C_T', properties=[
        CIMProperty('K', None, type='string', qualifiers=[CIMQualifier('Key', True)]),
        CIMProperty('P', (val0 if kind == 1 else val) if dflt else None, type=t, is_array=arr, qualifiers=quals),
        CIMProperty('Emb', None, type='string', embedded_object='instance', qualifiers=[CIMQualifier('EmbeddedInstance', 'C_T', type='string')]),
        CIMProperty('R', None, type='reference', reference_class='C_T')],
        methods=[CIMMethod('M', 'uint32', parameters=[CIMParameter('a', t, is_array=arr, qualifiers=quals[:1]),
                                                       CIMParameter('r', 'reference', reference_class='C_T')], qualifiers=quals[:1])],
        qualifiers=[CIMQualifier('Description', STRS[ssel], type='string')] if nq else [])
    try:
        if kind == 0:
            text = base_mof() + cls.tomof(maxline=maxline)
            got = compile_mof(text).classes['root/x']['C_T']
            want = cls
        elif kind == 1:
            # instance with an explicit NULL (or value) for a property that has a class default
            inst = CIMInstance('C_T', properties=[CIMProperty('K', 'k1'), CIMProperty('P', None if null else (val if val is not None else None), type=t, is_array=arr)])
            text = base_mof() + cls.tomof(maxline=maxline) + inst.tomof(maxline=maxline)
            conn = compile_mof(text)
            got = conn.instances['root/x'][0]
            want = inst
            got = CIMInstance(got.classname, properties=[got.properties[n] for n in ('K', 'P') if n in got.properties])
            for pn in ('K', 'P'):
                if pn not in got.properties:
                    return 'compiled instance lacks property %s' % pn
                gp, wp = got.properties[pn], want.properties[pn]
                if gp.value != wp.value or gp.type != wp.type or gp.is_array != wp.is_array:
                    return 'instance property %s: compiled value %r differs from %r' % (pn, gp.value, wp.value)
            TAGS.append('rt')
            return None
        else:
            qd = CIMQualifierDeclaration('Q_T', t, value=val, is_array=arr, scopes={'CLASS': True, 'PROPERTY': nq > 0, 'ANY': nq > 2},
                                         overridable=[None, True, False][nq % 3], tosubclass=[None, False, True][nq % 3], translatable=dflt)
            text = qd.tomof(maxline=maxline)
            got = compile_mof(text).qualifiers['root/x']['Q_T']
            want = qd
            if got.name != want.name or got.type != want.type or got.value != want.value or bool(got.is_array) != bool(want.is_array):
                return 'qualifier declaration differs after recompiling its tomof() output'
            for s in ('CLASS', 'PROPERTY'):
                if bool(got.scopes.get(s)) != (bool(want.scopes.get(s)) or bool(want.scopes.get('ANY'))):
                    return 'qualifier declaration scope %s differs' % s
            for fl, default in (('overridable', True), ('tosubclass', True), ('translatable', False)):
                w = getattr(want, fl)
                w = default if w is None else w
                g = getattr(got, fl)
                g = default if g is None else g
                if g != w:
                    return 'qualifier declaration flavor %s differs' % fl
            TAGS.append('rt')
            return None
    except Error as e:
        return 'tomof() output rejected by the MOF compiler: %s' % type(e).__name__
    # class comparison (compiled class gets class_origin/propagated etc. untouched by the plain MOFWBEMConnection)
    for pn, wp in want.properties.items():
        gp = got.properties.get(pn)
        if gp is None:
            return 'compiled class lacks property %s' % pn
        if gp.type != wp.type or gp.is_array != wp.is_array or gp.value != wp.value or gp.reference_class != wp.reference_class:
            return 'class property %s differs after recompiling (value %r vs %r)' % (pn, gp.value, wp.value)
        for qn, wq in wp.qualifiers.items():
            gq = gp.qualifiers.get(qn)
            if gq is None or gq.value != wq.value or gq.type != wq.type:
                return 'qualifier %s on property %s differs after recompiling' % (qn, pn)
    for mn, wm in want.methods.items():
        gm = got.methods.get(mn)
        if gm is None or gm.return_type != wm.return_type or list(gm.parameters.keys()) != list(wm.parameters.keys()):
            return 'method %s differs after recompiling' % mn
        for an, wa in wm.parameters.items():
            ga = gm.parameters[an]
            if ga.type != wa.type or bool(ga.is_array) != bool(wa.is_array) or ga.reference_class != wa.reference_class:
                return 'parameter %s differs after recompiling' % an
    for qn, wq in want.qualifiers.items():
        gq = got.qualifiers.get(qn)
        if gq is None or gq.value != wq.value:
            return 'class qualifier %s differs after recompiling' % qn
    TAGS.append('rt')
    return None


def _run_objects(*a):
    if mode.REPLAY:
        return _objects(*a)
    from crosshair.core import realize
    from crosshair.tracers import NoTracing
    from selpick import pick_all
    b = pick_all(a)
    with NoTracing():
        return _objects(*b)


def objects(kind: int, tsel: int, ssel: int, arr: bool, null: bool, dflt: bool, maxline: int, nq: int) -> Optional[str]:
    """
    pre: 0 <= kind <= 2 and 0 <= tsel < len(TYPED) and 0 <= ssel < len(STRS) and 0 <= nq <= 3
    pre: maxline == 40 or maxline == 60 or maxline == 80 or maxline == 100
    pre: ssel == 0 or nq > 0 or tsel == len(TYPED) - 1
    pre: (kind * 5 + tsel % 5) % NPARTS == PART
    post: _ is None
    """
    return _run_objects(kind, tsel, ssel, arr, null, dflt, maxline, nq)


def objects_reach(kind: int, tsel: int, ssel: int, arr: bool, null: bool, dflt: bool, maxline: int, nq: int) -> bool:
    """
    pre: 0 <= kind <= 2 and 0 <= tsel < len(TYPED) and 0 <= ssel < len(STRS) and 0 <= nq <= 3
    pre: maxline == 40 or maxline == 60 or maxline == 80 or maxline == 100
    pre: ssel == 0 or nq > 0 or tsel == len(TYPED) - 1
    pre: (kind * 5 + tsel % 5) % NPARTS == PART
    post: _
    """
    del TAGS[:]
    r = _run_objects(kind, tsel, ssel, arr, null, dflt, maxline, nq)
    return not (r is None and ('rt' in TAGS or TYPED[tsel][0] == 'char16'))
