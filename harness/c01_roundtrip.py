"""C01 harnesses (E1): structural CIM-XML round trip per element kind.

object --real tocimxml()--> minidom tree --model X (dom2tt)--> tuple tree
       --real TupleParser.parse_any--> object', compared attribute by attribute
(cimcmp), then object' is encoded again and the two DOMs must be structurally equal
(stands for "byte-identical XML": minidom serialisation is a pure function of the tree).
"""
import warnings
warnings.simplefilter('ignore')
from typing import Optional
from verifpw import kf, mode
from verifpw.xmlmodel import roundtrip, IllFormed, has_ws, has_cr
import cimcmp
import pywbem
from pywbem import (CIMProperty, CIMQualifier, CIMParameter, CIMMethod, CIMInstanceName, CIMClassName,
                    CIMInstance, CIMClass, CIMQualifierDeclaration, CIMDateTime, Uint8, Sint8, Uint16,
                    Sint16, Uint32, Sint32, Uint64, Sint64, Real32, Real64, Error)
from pywbem._tupleparse import TupleParser
import pywbem._tupleparse as tpm
import pywbem._cim_obj as com

tpm._format = lambda *a, **k: 'msg'          # stub: error message formatting
com._format = lambda *a, **k: 'msg'
PART, NPARTS = mode.part()
TAGS = []
QUICK = mode.tier() == 'quick'
NAME_MAX = 1 if QUICK else 2      # bounds per tier (stated in the evidence)
SV_MAX = 2 if QUICK else 3
CO_MAX = 1 if QUICK else 2
NQ_MAX = 1 if QUICK else 2
EMB_DEPTH = 1 if QUICK else 3


def in_part(x):
    return x % NPARTS == PART


# typed pool of boundary values (selected by symbolic selectors; values that only travel
# through str()/format are concrete because atomic_to_cim_xml formats them in C)
INF = float('inf')
POOL = [
    ('boolean', [True, False]),
    ('uint8', [Uint8(0), Uint8(255)]),
    ('sint8', [Sint8(-128), Sint8(127)]),
    ('uint16', [Uint16(0), Uint16(65535)]),
    ('sint16', [Sint16(-32768), Sint16(32767)]),
    ('uint32', [Uint32(0), Uint32(4294967295)]),
    ('sint32', [Sint32(-2147483648), Sint32(2147483647)]),
    ('uint64', [Uint64(0), Uint64(18446744073709551615)]),
    ('sint64', [Sint64(-9223372036854775808), Sint64(9223372036854775807)]),
    ('real32', [Real32(1.5), Real32(INF), Real32(-INF), Real32(float('nan'))]),
    ('real64', [Real64(0.1), Real64(1.7976931348623157e308), Real64(5e-324), Real64(-INF), Real64(float('nan'))]),
    ('datetime', [CIMDateTime('20140924193040.654321+120'), CIMDateTime('00000123010203.000004:000'),
                  CIMDateTime('201409241930**.******-000')]),
    ('char16', ['a', '<']),
]
# CrossHair replaces datetime/timedelta by pure-Python classes while tracing; CIMDateTime
# objects built at import time (real datetime + pywbem tzinfo) then fail inside utcoffset()
# with an engine artefact.  Pool datetimes therefore carry their (natively computed) text;
# CIMDateTime.__str__ itself is C06's subject.
_DT_STR = CIMDateTime.__str__
if not mode.REPLAY:
    # Same artefact on the parsing side: a tzinfo subclass cannot be instantiated while
    # CrossHair traces.  CIMDateTime(str) is run untraced on the realised text.
    from crosshair.tracers import NoTracing as _NoTracing
    from crosshair.core import deep_realize as _deep_realize
    _RealDT = CIMDateTime

    class _DTProxy:
        def __new__(cls, *a, **k):
            with _NoTracing():
                return _RealDT(*_deep_realize(a), **_deep_realize(k))
    tpm.CIMDateTime = _DTProxy

    def _dt_str(self):
        with _NoTracing():
            return _DT_STR(self)
    CIMDateTime.__str__ = _dt_str
NTYPES = len(POOL) + 1          # + 'string' (symbolic content), selector value len(POOL)


def typed(tsel, vsel, sval):
    if tsel == len(POOL):
        return 'string', sval
    t, vals = POOL[tsel]
    return t, vals[vsel % len(vals)]


def dom_facts(node, facts):
    """Input-class facts used by the known-findings predicates (branch-free: | not or)."""
    for k in node.attributes.keys():
        v = node.attributes[k].value
        facts['attr_ws'] = facts['attr_ws'] | has_ws(v)
    for ch in node.childNodes:
        if ch.nodeType == ch.ELEMENT_NODE:
            dom_facts(ch, facts)
        else:
            facts['text_cr'] = facts['text_cr'] | has_cr(ch.data)
    return facts


def rt(obj, **tocimxml_kw):
    """Round trip; returns violation string or None.  IllFormed = outside the domain
    (not representable in XML 1.0) -> None."""
    dom = obj.tocimxml(**tocimxml_kw)
    facts = dom_facts(dom, {'attr_ws': False, 'text_cr': False})
    if kf.skip('c01_roundtrip:rt', **facts):
        return None
    try:
        tt = roundtrip(dom)
    except IllFormed:
        return None
    back = TupleParser().parse_any(tt)
    if isinstance(back, tuple) and not isinstance(obj, tuple):
        back = back[-1] if len(back) and isinstance(back[-1], type(obj)) else back
    r = cimcmp.same_obj(obj, back)
    if r:
        return r
    TAGS.append('rt')
    # "Encoding and parsing the parsed object once more changes nothing: same object,
    # byte-identical XML"
    dom2 = back.tocimxml(**tocimxml_kw)
    back2 = TupleParser().parse_any(roundtrip(dom2))
    if isinstance(back2, tuple) and not isinstance(obj, tuple):
        back2 = back2[-1] if len(back2) and isinstance(back2[-1], type(obj)) else back2
    r = cimcmp.same_obj(back, back2)
    if r:
        return 'second round trip differs: ' + r
    dom3 = back2.tocimxml(**tocimxml_kw)
    r = cimcmp.same_dom(dom2, dom3)
    if r:
        return 'second encoding differs: ' + r
    return None


def quals(nq, qv):
    out = []
    if nq >= 1:
        out.append(CIMQualifier('Qa', qv, type='string'))
    if nq >= 2:
        out.append(CIMQualifier('qB', True, type='boolean', overridable=False))
    return out


# ------------------------------------------------------------------ CIMProperty (scalar)
def _prop_scalar(name: str, tsel: int, vsel: int, sval: str, null: bool, co: Optional[str],
                prop: Optional[bool], nq: int):
    if kf.skip('c01_roundtrip:prop_scalar', name=name, tsel=tsel, vsel=vsel, sval=sval, null=null, co=co, prop=prop, nq=nq):
        return None
    t, v = typed(tsel, vsel, sval)
    p = CIMProperty(name, None if null else v, type=t, class_origin=co, propagated=prop,
                    qualifiers=quals(nq, sval))
    return rt(p)


def prop_scalar(name: str, tsel: int, vsel: int, sval: str, null: bool, co: Optional[str],
                prop: Optional[bool], nq: int) -> Optional[str]:
    """
    pre: 1 <= len(name) <= NAME_MAX and len(sval) <= SV_MAX
    pre: 0 <= tsel < NTYPES and 0 <= vsel < 5 and 0 <= nq <= NQ_MAX
    pre: co is None or len(co) <= CO_MAX
    pre: in_part(tsel)
    post: _ is None
    """
    return _prop_scalar(name, tsel, vsel, sval, null, co, prop, nq)


def prop_scalar_reach(name: str, tsel: int, vsel: int, sval: str, null: bool, co: Optional[str],
                      prop: Optional[bool], nq: int) -> bool:
    """
    pre: 1 <= len(name) <= NAME_MAX and len(sval) <= SV_MAX
    pre: 0 <= tsel < NTYPES and 0 <= vsel < 5 and 0 <= nq <= NQ_MAX
    pre: co is None or len(co) <= CO_MAX
    post: _
    """
    del TAGS[:]
    r = _prop_scalar(name, tsel, vsel, sval, null, co, prop, nq)
    return not (r is None and 'rt' in TAGS)


# ------------------------------------------------------------------ CIMProperty (array)
def _prop_array(name: str, tsel: int, n: int, nullmask: int, sval: str, null: bool,
               asz: Optional[int], co: Optional[str], prop: Optional[bool]):
    if kf.skip('c01_roundtrip:prop_array', name=name, tsel=tsel, n=n, nullmask=nullmask, sval=sval, null=null, asz=asz, co=co, prop=prop):
        return None
    vals = []
    t = 'string'
    for i in range(n):
        t, v = typed(tsel, i, sval)
        vals.append(None if (nullmask >> i) & 1 else v)
    if n == 0:
        t, _v = typed(tsel, 0, sval)
    p = CIMProperty(name, None if null else vals, type=t, is_array=True, array_size=asz,
                    class_origin=co, propagated=prop)
    return rt(p)


def prop_array(name: str, tsel: int, n: int, nullmask: int, sval: str, null: bool,
               asz: Optional[int], co: Optional[str], prop: Optional[bool]) -> Optional[str]:
    """
    pre: 1 <= len(name) <= NAME_MAX and len(sval) <= SV_MAX
    pre: 0 <= tsel < NTYPES and 0 <= n <= 3 and 0 <= nullmask < 8
    pre: asz is None or asz >= 0
    pre: co is None or len(co) <= CO_MAX
    pre: in_part(tsel)
    post: _ is None
    """
    return _prop_array(name, tsel, n, nullmask, sval, null, asz, co, prop)


def prop_array_reach(name: str, tsel: int, n: int, nullmask: int, sval: str, null: bool,
                     asz: Optional[int], co: Optional[str], prop: Optional[bool]) -> bool:
    """
    pre: 1 <= len(name) <= NAME_MAX and len(sval) <= SV_MAX
    pre: 0 <= tsel < NTYPES and 0 <= n <= 3 and 0 <= nullmask < 8
    pre: asz is None or asz >= 0
    pre: co is None or len(co) <= CO_MAX
    post: _
    """
    del TAGS[:]
    r = _prop_array(name, tsel, n, nullmask, sval, null, asz, co, prop)
    return not (r is None and 'rt' in TAGS)


# ------------------------------------------------------------------ paths
def mkpath(cn, nkeys, ksel, kname, sval, host, ns, depth):
    kb = []
    for i in range(nkeys):
        sel = (ksel + i) % (NTYPES + 1)
        if sel == NTYPES:            # nested reference key
            if depth > 0:
                v = mkpath('Ref', 1, 1, 'rk', sval, host, ns, depth - 1)
            else:
                v = sval
        else:
            t, v = typed(sel, i, sval)
            if t == 'char16':
                v = sval             # keybindings carry char16 as plain strings
        kb.append((kname + str(i), v))
    return CIMInstanceName(cn, keybindings=kb, host=host, namespace=ns)


def _instancename(cn: str, nkeys: int, ksel: int, kname: str, sval: str, host: Optional[str],
                 ns: Optional[str], depth: int):
    if kf.skip('c01_roundtrip:instancename', cn=cn, nkeys=nkeys, ksel=ksel, kname=kname, sval=sval, host=host, ns=ns, depth=depth):
        return None
    if ns is not None and ('/' in ns):
        if ns.startswith('/') or ns.endswith('/') or '//' in ns:
            return None              # namespace normalisation (documented) is not a round-trip subject
    p = mkpath(cn, nkeys, ksel, kname, sval, host, ns, depth)
    return rt(p)


def instancename(cn: str, nkeys: int, ksel: int, kname: str, sval: str, host: Optional[str],
                 ns: Optional[str], depth: int) -> Optional[str]:
    """
    pre: 1 <= len(cn) <= NAME_MAX and 1 <= len(kname) <= NAME_MAX and len(sval) <= SV_MAX
    pre: 0 <= nkeys <= 2 and 0 <= ksel <= NTYPES and 0 <= depth <= 2
    pre: host is None or 1 <= len(host) <= NAME_MAX
    pre: ns is None or 1 <= len(ns) <= 3
    pre: host is None or ns is not None
    pre: in_part(ksel)
    post: _ is None
    """
    return _instancename(cn, nkeys, ksel, kname, sval, host, ns, depth)


def instancename_reach(cn: str, nkeys: int, ksel: int, kname: str, sval: str, host: Optional[str],
                       ns: Optional[str], depth: int) -> bool:
    """
    pre: 1 <= len(cn) <= NAME_MAX and 1 <= len(kname) <= NAME_MAX and len(sval) <= SV_MAX
    pre: 0 <= nkeys <= 2 and 0 <= ksel <= NTYPES and 0 <= depth <= 2
    pre: host is None or 1 <= len(host) <= NAME_MAX
    pre: ns is None or 1 <= len(ns) <= 3
    pre: host is None or ns is not None
    post: _
    """
    del TAGS[:]
    r = _instancename(cn, nkeys, ksel, kname, sval, host, ns, depth)
    return not (r is None and 'rt' in TAGS)


def _classname(cn: str, host: Optional[str], ns: Optional[str]):
    if ns is not None and (ns.startswith('/') or ns.endswith('/') or '//' in ns):
        return None
    return rt(CIMClassName(cn, host=host, namespace=ns))


def classname(cn: str, host: Optional[str], ns: Optional[str]) -> Optional[str]:
    """
    pre: 1 <= len(cn) <= NAME_MAX
    pre: host is None or 1 <= len(host) <= NAME_MAX
    pre: ns is None or 1 <= len(ns) <= 3
    pre: host is None or ns is not None
    post: _ is None
    """
    return _classname(cn, host, ns)


def classname_reach(cn: str, host: Optional[str], ns: Optional[str]) -> bool:
    """
    pre: 1 <= len(cn) <= NAME_MAX
    pre: host is None or 1 <= len(host) <= NAME_MAX
    pre: ns is None or 1 <= len(ns) <= 3
    pre: host is None or ns is not None
    post: _
    """
    del TAGS[:]
    r = _classname(cn, host, ns)
    return not (r is None and 'rt' in TAGS)


# ------------------------------------------------------------------ reference property
def _prop_ref(name: str, rc: Optional[str], hasval: bool, sval: str, host: Optional[str],
             ns: Optional[str], co: Optional[str], prop: Optional[bool], nq: int):
    v = CIMInstanceName('Tgt', keybindings=[('k', sval)], host=host, namespace=ns) if hasval else None
    p = CIMProperty(name, v, type='reference', reference_class=rc, class_origin=co, propagated=prop,
                    qualifiers=quals(nq, sval))
    return rt(p)


def prop_ref(name: str, rc: Optional[str], hasval: bool, sval: str, host: Optional[str],
             ns: Optional[str], co: Optional[str], prop: Optional[bool], nq: int) -> Optional[str]:
    """
    pre: 1 <= len(name) <= NAME_MAX and len(sval) <= SV_MAX and 0 <= nq <= 1
    pre: rc is None or 1 <= len(rc) <= NAME_MAX
    pre: host is None or 1 <= len(host) <= NAME_MAX
    pre: ns is None or (1 <= len(ns) <= 2 and '/' not in ns)
    pre: host is None or ns is not None
    pre: co is None or len(co) <= CO_MAX
    post: _ is None
    """
    return _prop_ref(name, rc, hasval, sval, host, ns, co, prop, nq)


def prop_ref_reach(name: str, rc: Optional[str], hasval: bool, sval: str, host: Optional[str],
                   ns: Optional[str], co: Optional[str], prop: Optional[bool], nq: int) -> bool:
    """
    pre: 1 <= len(name) <= NAME_MAX and len(sval) <= SV_MAX and 0 <= nq <= 1
    pre: rc is None or 1 <= len(rc) <= NAME_MAX
    pre: host is None or 1 <= len(host) <= NAME_MAX
    pre: ns is None or (1 <= len(ns) <= 2 and '/' not in ns)
    pre: host is None or ns is not None
    pre: co is None or len(co) <= CO_MAX
    post: _
    """
    del TAGS[:]
    r = _prop_ref(name, rc, hasval, sval, host, ns, co, prop, nq)
    return not (r is None and 'rt' in TAGS)


# ------------------------------------------------------------------ qualifier / declaration
def _qualifier(name: str, tsel: int, vsel: int, sval: str, arr: bool, n: int, null: bool, prop: Optional[bool],
              ov: Optional[bool], ts: Optional[bool], ti: Optional[bool], tr: Optional[bool]):
    if kf.skip('c01_roundtrip:qualifier', name=name, tsel=tsel, vsel=vsel, sval=sval, arr=arr, n=n, null=null, prop=prop, ov=ov, ts=ts, ti=ti, tr=tr):
        return None
    t, v = typed(tsel, vsel, sval)
    if arr:
        v = [typed(tsel, vsel + i, sval)[1] for i in range(n)]
    if null:
        return None      # DTD requires a VALUE child for QUALIFIER: NULL-valued qualifiers are C03's subject
    q = CIMQualifier(name, v, type=t, propagated=prop, overridable=ov, tosubclass=ts, toinstance=ti, translatable=tr)
    return rt(q)


def qualifier(name: str, tsel: int, vsel: int, sval: str, arr: bool, n: int, null: bool, prop: Optional[bool],
              ov: Optional[bool], ts: Optional[bool], ti: Optional[bool], tr: Optional[bool]) -> Optional[str]:
    """
    pre: 1 <= len(name) <= NAME_MAX and len(sval) <= SV_MAX
    pre: 0 <= tsel < NTYPES and 0 <= vsel < 5 and 0 <= n <= 2
    pre: in_part(tsel)
    post: _ is None
    """
    return _qualifier(name, tsel, vsel, sval, arr, n, null, prop, ov, ts, ti, tr)


def qualifier_reach(name: str, tsel: int, vsel: int, sval: str, arr: bool, n: int, null: bool, prop: Optional[bool],
                    ov: Optional[bool], ts: Optional[bool], ti: Optional[bool], tr: Optional[bool]) -> bool:
    """
    pre: 1 <= len(name) <= NAME_MAX and len(sval) <= SV_MAX
    pre: 0 <= tsel < NTYPES and 0 <= vsel < 5 and 0 <= n <= 2
    post: _
    """
    del TAGS[:]
    r = _qualifier(name, tsel, vsel, sval, arr, n, null, prop, ov, ts, ti, tr)
    return not (r is None and 'rt' in TAGS)


SCOPES = ['CLASS', 'ASSOCIATION', 'INDICATION', 'PROPERTY', 'REFERENCE', 'METHOD', 'PARAMETER', 'ANY']


def _qualdecl(name: str, tsel: int, vsel: int, sval: str, arr: bool, n: int, null: bool, asz: Optional[int],
             scopes: int, ov: Optional[bool], ts: Optional[bool], ti: Optional[bool], tr: Optional[bool]):
    if kf.skip('c01_roundtrip:qualdecl', name=name, tsel=tsel, vsel=vsel, sval=sval, arr=arr, n=n, null=null, asz=asz, scopes=scopes, ov=ov, ts=ts, ti=ti, tr=tr):
        return None
    t, v = typed(tsel, vsel, sval)
    if arr:
        v = [typed(tsel, vsel + i, sval)[1] for i in range(n)]
    if null:
        v = None
    if not arr and asz is not None:
        return None                  # array_size is meaningful for arrays only (constructor rejects/ignores)
    sc = {}
    for i in range(8):
        if (scopes >> i) & 1:
            sc[SCOPES[i]] = True
    q = CIMQualifierDeclaration(name, t, value=v, is_array=arr, array_size=asz, scopes=sc,
                                overridable=ov, tosubclass=ts, toinstance=ti, translatable=tr)
    return rt(q)


def qualdecl(name: str, tsel: int, vsel: int, sval: str, arr: bool, n: int, null: bool, asz: Optional[int],
             scopes: int, ov: Optional[bool], ts: Optional[bool], ti: Optional[bool], tr: Optional[bool]) -> Optional[str]:
    """
    pre: 1 <= len(name) <= NAME_MAX and len(sval) <= SV_MAX
    pre: 0 <= tsel < NTYPES and 0 <= vsel < 5 and 0 <= n <= 2 and 0 <= scopes < 256
    pre: asz is None or asz >= 0
    pre: in_part(tsel)
    post: _ is None
    """
    return _qualdecl(name, tsel, vsel, sval, arr, n, null, asz, scopes, ov, ts, ti, tr)


def qualdecl_reach(name: str, tsel: int, vsel: int, sval: str, arr: bool, n: int, null: bool, asz: Optional[int],
                   scopes: int, ov: Optional[bool], ts: Optional[bool], ti: Optional[bool], tr: Optional[bool]) -> bool:
    """
    pre: 1 <= len(name) <= NAME_MAX and len(sval) <= SV_MAX
    pre: 0 <= tsel < NTYPES and 0 <= vsel < 5 and 0 <= n <= 2 and 0 <= scopes < 256
    pre: asz is None or asz >= 0
    post: _
    """
    del TAGS[:]
    r = _qualdecl(name, tsel, vsel, sval, arr, n, null, asz, scopes, ov, ts, ti, tr)
    return not (r is None and 'rt' in TAGS)


# ------------------------------------------------------------------ parameter / method
def _parameter(name: str, tsel: int, arr: bool, asz: Optional[int], rc: Optional[str], isref: bool,
              nq: int, sval: str):
    if kf.skip('c01_roundtrip:parameter', name=name, tsel=tsel, arr=arr, asz=asz, rc=rc, isref=isref, nq=nq, sval=sval):
        return None
    t = 'reference' if isref else typed(tsel, 0, sval)[0]
    if not isref and rc is not None:
        return None
    if not arr and asz is not None:
        return None
    p = CIMParameter(name, t, reference_class=rc, is_array=arr, array_size=asz, qualifiers=quals(nq, sval))
    return rt(p)


def parameter(name: str, tsel: int, arr: bool, asz: Optional[int], rc: Optional[str], isref: bool,
              nq: int, sval: str) -> Optional[str]:
    """
    pre: 1 <= len(name) <= NAME_MAX and len(sval) <= SV_MAX and 0 <= nq <= NQ_MAX
    pre: 0 <= tsel < NTYPES
    pre: asz is None or asz >= 0
    pre: rc is None or 1 <= len(rc) <= NAME_MAX
    post: _ is None
    """
    return _parameter(name, tsel, arr, asz, rc, isref, nq, sval)


def parameter_reach(name: str, tsel: int, arr: bool, asz: Optional[int], rc: Optional[str], isref: bool,
                    nq: int, sval: str) -> bool:
    """
    pre: 1 <= len(name) <= NAME_MAX and len(sval) <= SV_MAX and 0 <= nq <= NQ_MAX
    pre: 0 <= tsel < NTYPES
    pre: asz is None or asz >= 0
    pre: rc is None or 1 <= len(rc) <= NAME_MAX
    post: _
    """
    del TAGS[:]
    r = _parameter(name, tsel, arr, asz, rc, isref, nq, sval)
    return not (r is None and 'rt' in TAGS)


def _paramvalue(name: str, tsel: int, vsel: int, sval: str, arr: bool, n: int, nullmask: int, isref: bool):
    if kf.skip('c01_roundtrip:paramvalue', name=name, tsel=tsel, vsel=vsel, sval=sval, arr=arr, n=n, nullmask=nullmask, isref=isref):
        return None
    if isref:
        t, v = 'reference', CIMInstanceName('T', keybindings=[('k', sval)])
    else:
        t, v = typed(tsel, vsel, sval)
    if arr:
        v = [None if (nullmask >> i) & 1 else (v if isref else typed(tsel, vsel + i, sval)[1]) for i in range(n)]
    p = CIMParameter(name, t, is_array=arr, value=v)
    dom = p.tocimxml(as_value=True)
    facts = dom_facts(dom, {'attr_ws': False, 'text_cr': False})
    if kf.skip('c01_roundtrip:rt', **facts):
        return None
    try:
        tt = roundtrip(dom)
    except IllFormed:
        return None
    back = TupleParser().parse_any(tt)      # (name, type, value) tuple
    TAGS.append('rt')
    if isinstance(back, CIMParameter):
        bn, bt, bv = back.name, back.type, back.value
    else:
        bn, bt, bv = back[0], back[1], back[2]
    if bn != name:
        return 'paramvalue name'
    if bt != t:
        return 'paramvalue type'
    if t == 'datetime':
        v = [None if x is None else str(x) for x in v] if arr else str(v)
    elif not isref:
        # typing of PARAMVALUE content is done by the caller with the unpack functions
        tp_ = TupleParser()
        bv = [tp_.unpack_single_value(x, bt) for x in bv] if isinstance(bv, list) else tp_.unpack_single_value(bv, bt)      # typing of PARAMVALUE content is done by the caller (_methodcall)
    return cimcmp.same_value(v, bv, 'paramvalue')


def paramvalue(name: str, tsel: int, vsel: int, sval: str, arr: bool, n: int, nullmask: int, isref: bool) -> Optional[str]:
    """
    pre: 1 <= len(name) <= NAME_MAX and len(sval) <= SV_MAX
    pre: 0 <= tsel < NTYPES and 0 <= vsel < 5 and 0 <= n <= 2 and 0 <= nullmask < 4
    pre: in_part(tsel)
    post: _ is None
    """
    return _paramvalue(name, tsel, vsel, sval, arr, n, nullmask, isref)


def paramvalue_reach(name: str, tsel: int, vsel: int, sval: str, arr: bool, n: int, nullmask: int, isref: bool) -> bool:
    """
    pre: 1 <= len(name) <= NAME_MAX and len(sval) <= SV_MAX
    pre: 0 <= tsel < NTYPES and 0 <= vsel < 5 and 0 <= n <= 2 and 0 <= nullmask < 4
    post: _
    """
    del TAGS[:]
    r = _paramvalue(name, tsel, vsel, sval, arr, n, nullmask, isref)
    return not (r is None and 'rt' in TAGS)


def _method(name: str, tsel: int, co: Optional[str], prop: Optional[bool], np: int, nq: int, sval: str,
           pname: str):
    if kf.skip('c01_roundtrip:method', name=name, tsel=tsel, co=co, prop=prop, np=np, nq=nq, sval=sval, pname=pname):
        return None
    rtype = typed(tsel, 0, sval)[0]
    params = []
    if np >= 1:
        params.append(CIMParameter(pname, 'uint8', qualifiers=quals(nq, sval)))
    if np >= 2:
        params.append(CIMParameter(pname + 'Z', 'reference', reference_class='RC', is_array=True, array_size=3))
    m = CIMMethod(name, return_type=rtype, parameters=params, class_origin=co, propagated=prop,
                  qualifiers=quals(nq, sval))
    return rt(m)


def method(name: str, tsel: int, co: Optional[str], prop: Optional[bool], np: int, nq: int, sval: str,
           pname: str) -> Optional[str]:
    """
    pre: 1 <= len(name) <= NAME_MAX and 1 <= len(pname) <= NAME_MAX and len(sval) <= SV_MAX
    pre: 0 <= tsel < NTYPES and 0 <= np <= 2 and 0 <= nq <= NQ_MAX
    pre: co is None or len(co) <= CO_MAX
    post: _ is None
    """
    return _method(name, tsel, co, prop, np, nq, sval, pname)


def method_reach(name: str, tsel: int, co: Optional[str], prop: Optional[bool], np: int, nq: int, sval: str,
                 pname: str) -> bool:
    """
    pre: 1 <= len(name) <= NAME_MAX and 1 <= len(pname) <= NAME_MAX and len(sval) <= SV_MAX
    pre: 0 <= tsel < NTYPES and 0 <= np <= 2 and 0 <= nq <= NQ_MAX
    pre: co is None or len(co) <= CO_MAX
    post: _
    """
    del TAGS[:]
    r = _method(name, tsel, co, prop, np, nq, sval, pname)
    return not (r is None and 'rt' in TAGS)


# ------------------------------------------------------------------ instance / class
def _instance(cn: str, nprops: int, tsel: int, sval: str, pname: str, nq: int, pathkind: int,
             host: Optional[str], ns: Optional[str], nullp: bool):
    if kf.skip('c01_roundtrip:instance', cn=cn, nprops=nprops, tsel=tsel, sval=sval, pname=pname, nq=nq, pathkind=pathkind, host=host, ns=ns, nullp=nullp):
        return None
    props = []
    for i in range(nprops):
        t, v = typed((tsel + i) % NTYPES, i, sval)
        props.append(CIMProperty(pname + str(i), None if (nullp and i == 0) else v, type=t))
    path = None
    if pathkind == 1:
        path = CIMInstanceName(cn, keybindings=[('k', sval)], host=host, namespace=ns)
    inst = CIMInstance(cn, properties=props, qualifiers=quals(nq, sval), path=path)
    return rt(inst)


def instance(cn: str, nprops: int, tsel: int, sval: str, pname: str, nq: int, pathkind: int,
             host: Optional[str], ns: Optional[str], nullp: bool) -> Optional[str]:
    """
    pre: 1 <= len(cn) <= NAME_MAX and 1 <= len(pname) <= NAME_MAX and len(sval) <= SV_MAX
    pre: 0 <= nprops <= 2 and 0 <= tsel < NTYPES and 0 <= nq <= 1 and 0 <= pathkind <= 1
    pre: host is None or 1 <= len(host) <= NAME_MAX
    pre: ns is None or (1 <= len(ns) <= 2 and '/' not in ns)
    pre: host is None or ns is not None
    pre: in_part(tsel)
    post: _ is None
    """
    return _instance(cn, nprops, tsel, sval, pname, nq, pathkind, host, ns, nullp)


def instance_reach(cn: str, nprops: int, tsel: int, sval: str, pname: str, nq: int, pathkind: int,
                   host: Optional[str], ns: Optional[str], nullp: bool) -> bool:
    """
    pre: 1 <= len(cn) <= NAME_MAX and 1 <= len(pname) <= NAME_MAX and len(sval) <= SV_MAX
    pre: 0 <= nprops <= 2 and 0 <= tsel < NTYPES and 0 <= nq <= 1 and 0 <= pathkind <= 1
    pre: host is None or 1 <= len(host) <= NAME_MAX
    pre: ns is None or (1 <= len(ns) <= 2 and '/' not in ns)
    pre: host is None or ns is not None
    post: _
    """
    del TAGS[:]
    r = _instance(cn, nprops, tsel, sval, pname, nq, pathkind, host, ns, nullp)
    return not (r is None and 'rt' in TAGS)


def _klass(cn: str, sc: Optional[str], nprops: int, nmeth: int, tsel: int, sval: str, pname: str, nq: int,
          co: Optional[str], prop: Optional[bool], arr: bool):
    if kf.skip('c01_roundtrip:klass', cn=cn, sc=sc, nprops=nprops, nmeth=nmeth, tsel=tsel, sval=sval, pname=pname, nq=nq, co=co, prop=prop, arr=arr):
        return None
    props = []
    for i in range(nprops):
        t, v = typed((tsel + i) % NTYPES, i, sval)
        if arr and i == 0:
            props.append(CIMProperty(pname + str(i), [v], type=t, is_array=True, class_origin=co, propagated=prop))
        else:
            props.append(CIMProperty(pname + str(i), v, type=t, class_origin=co, propagated=prop,
                                     qualifiers=quals(nq, sval)))
    meths = []
    if nmeth:
        meths.append(CIMMethod('M' + pname, return_type='uint32', class_origin=co, propagated=prop,
                               parameters=[CIMParameter('p', 'string', is_array=arr)]))
    c = CIMClass(cn, properties=props, methods=meths, superclass=sc, qualifiers=quals(nq, sval))
    return rt(c)


def klass(cn: str, sc: Optional[str], nprops: int, nmeth: int, tsel: int, sval: str, pname: str, nq: int,
          co: Optional[str], prop: Optional[bool], arr: bool) -> Optional[str]:
    """
    pre: 1 <= len(cn) <= NAME_MAX and 1 <= len(pname) <= NAME_MAX and len(sval) <= SV_MAX
    pre: sc is None or 1 <= len(sc) <= NAME_MAX
    pre: 0 <= nprops <= 2 and 0 <= nmeth <= 1 and 0 <= tsel < NTYPES and 0 <= nq <= NQ_MAX
    pre: co is None or len(co) <= CO_MAX
    pre: in_part(tsel)
    post: _ is None
    """
    return _klass(cn, sc, nprops, nmeth, tsel, sval, pname, nq, co, prop, arr)


def klass_reach(cn: str, sc: Optional[str], nprops: int, nmeth: int, tsel: int, sval: str, pname: str, nq: int,
                co: Optional[str], prop: Optional[bool], arr: bool) -> bool:
    """
    pre: 1 <= len(cn) <= NAME_MAX and 1 <= len(pname) <= NAME_MAX and len(sval) <= SV_MAX
    pre: sc is None or 1 <= len(sc) <= NAME_MAX
    pre: 0 <= nprops <= 2 and 0 <= nmeth <= 1 and 0 <= tsel < NTYPES and 0 <= nq <= NQ_MAX
    pre: co is None or len(co) <= CO_MAX
    post: _
    """
    del TAGS[:]
    r = _klass(cn, sc, nprops, nmeth, tsel, sval, pname, nq, co, prop, arr)
    return not (r is None and 'rt' in TAGS)


# ------------------------------------------------------------------ H3: embedded objects
def _inner(kind, depth, sval):
    """Concrete-shaped embedded object nest: depth 0 = plain instance/class; the innermost
    string value is the symbolic sval only at depth 0 of a scalar (else concrete), because the
    embedded text is re-parsed by expat (C code) inside parse_embeddedObject."""
    if kind == 0:
        props = [CIMProperty('Ip', 'x<&>y', type='string'), CIMProperty('In', Uint8(7))]
        if depth > 0:
            props.append(CIMProperty('Emb', _inner(0, depth - 1, sval), type='string', embedded_object='instance'))
            props.append(CIMProperty('EmbA', [_inner(0, 0, sval), None], type='string', embedded_object='instance',
                                     is_array=True))
        return CIMInstance('Inner%d' % depth, properties=props)
    props = [CIMProperty('Cp', None, type='string', qualifiers=[CIMQualifier('Q', ']]>', type='string')])]
    return CIMClass('InnerC%d' % depth, properties=props,
                    methods=[CIMMethod('M', return_type='uint32', parameters=[CIMParameter('p', 'string')])])


def _embedded(name: str, kind: int, eo: int, arr: bool, n: int, nullmask: int, null: bool, depth: int,
              co: Optional[str], aspv: bool):
    if kf.skip('c01_roundtrip:embedded', name=name, kind=kind, eo=eo, arr=arr, n=n, nullmask=nullmask, null=null, depth=depth, co=co, aspv=aspv):
        return None
    eobj = ['instance', 'object'][eo]
    if kind == 1 and eobj == 'instance':
        return None                      # a class can only be embedded as 'object'
    if arr:
        v = [None if (nullmask >> i) & 1 else _inner(kind, depth if i == 0 else 0, 's') for i in range(n)]
    else:
        v = _inner(kind, depth, 's')
    if null:
        v = None
    if aspv:
        p = CIMParameter(name, 'string', is_array=arr, value=v, embedded_object=eobj)
        dom = p.tocimxml(as_value=True)
        facts = dom_facts(dom, {'attr_ws': False, 'text_cr': False})
        if kf.skip('c01_roundtrip:rt', **facts):
            return None
        try:
            tt = roundtrip(dom)
        except IllFormed:
            return None
        back = TupleParser().parse_any(tt)
        TAGS.append('rt')
        if back[0] != name:
            return 'paramvalue name'
        return cimcmp.same_value(v, back[2], 'embedded paramvalue')
    p = CIMProperty(name, v, type='string', is_array=arr, embedded_object=eobj, class_origin=co)
    return rt(p)


def embedded(name: str, kind: int, eo: int, arr: bool, n: int, nullmask: int, null: bool, depth: int,
             co: Optional[str], aspv: bool) -> Optional[str]:
    """
    pre: 1 <= len(name) <= NAME_MAX
    pre: 0 <= kind <= 1 and 0 <= eo <= 1 and 0 <= n <= 3 and 0 <= nullmask < (1 << n) and 0 <= depth <= EMB_DEPTH
    pre: co is None
    pre: arr or (n == 0 and nullmask == 0)
    pre: in_part(n * 2 + kind)
    post: _ is None
    """
    return _embedded(name, kind, eo, arr, n, nullmask, null, depth, co, aspv)


def embedded_reach(name: str, kind: int, eo: int, arr: bool, n: int, nullmask: int, null: bool, depth: int,
                   co: Optional[str], aspv: bool) -> bool:
    """
    pre: 1 <= len(name) <= NAME_MAX
    pre: 0 <= kind <= 1 and 0 <= eo <= 1 and 0 <= n <= 3 and 0 <= nullmask < (1 << n) and 0 <= depth <= EMB_DEPTH
    pre: co is None
    pre: arr or (n == 0 and nullmask == 0)
    post: _
    """
    del TAGS[:]
    r = _embedded(name, kind, eo, arr, n, nullmask, null, depth, co, aspv)
    return not (r is None and 'rt' in TAGS and arr)
